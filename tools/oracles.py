"""Property oracles: each reads ONLY the implementation's observations of a run and evaluates the
property's own sentence on them. A failure is a dict(sentence, lineno, detail)."""
from tcslib import *

WINDOW = 5   # "the five most recent versions": the property's own number (not read from the code)

def fail(sentence, rec, detail):
    return {'sentence': sentence, 'lineno': rec.lineno if rec is not None else -1, 'detail': detail,
            'line': (rec.lhs[:300] + ' => ' + str(rec.impl)[:300]) if rec is not None else ''}

class Group:
    """records of one abstract operation: the operation's own records and the dumps that follow"""
    def __init__(self, meta):
        self.meta = meta or {}
        self.ops = []
        self.dumps = {}      # client -> impl dump string
        self.raw = None
        self.dump_recs = []

def groups_of(run):
    """split a run into groups; group 0 = initial dumps (meta None)"""
    gs = []
    cur = Group(None)
    gs.append(cur)
    last_meta_raw = None
    for r in run.recs:
        mraw = r.meta['_raw'] if r.meta else None
        if mraw != last_meta_raw:
            cur = Group(r.meta)
            gs.append(cur)
            last_meta_raw = mraw
        if r.op == 'dump':
            cur.dumps[r.client] = r.impl
            cur.dump_recs.append(r)
        elif r.op == 'rawdump':
            cur.raw = r.impl
            cur.dump_recs.append(r)
        else:
            cur.ops.append(r)
    return gs

class State:
    """what the harness-side log says about a run so far (from implementation answers only)"""
    def __init__(self, run):
        self.acc = collections.defaultdict(list)       # client -> [(id, parent, bodykey)]
        self.snap = {}                                 # client -> (v, bodykey) of the last ACCEPTED snapshot (acc flag)
        self.snap_since = {}                           # client -> versions accepted since that snapshot was stored
        self.seen_ids = set(run.clients)
    def base(self, c):
        return self.acc[c][0][1] if self.acc[c] else None
    def chain(self, c):
        return [a[0] for a in self.acc[c]]

def bodykey(rec):
    b = body_of(rec)
    return blob_key('hex:' + b.hex()) if len(b) <= 1 << 20 else ('h', len(b), hashlib.sha1(b).hexdigest())

def iterate(run):
    """yields (group, prev_dumps, prev_raw, state_before) and updates the state after the caller has looked"""
    st = State(run)
    prev_d, prev_raw = {}, None
    for g in groups_of(run):
        yield g, prev_d, prev_raw, st
        for r in g.ops:
            if r.op == 'av':
                st.seen_ids.add(r.arg)
                if r.i_out[0] == 'ok':
                    st.acc[r.client].append((r.i_out[1], r.arg, bodykey(r)))
                    st.seen_ids.add(r.i_out[1])
                    if r.client in st.snap_since:
                        st.snap_since[r.client] += 1
            elif r.op == 'as':
                st.seen_ids.add(r.arg)
                if r.i_out[0] == 'ok' and r.i_out[1] == '1':
                    st.snap[r.client] = (r.arg, bodykey(r))
                    st.snap_since[r.client] = 0
            elif r.op == 'gcv':
                st.seen_ids.add(r.arg)
        if g.dumps:
            prev_d = dict(prev_d); prev_d.update(g.dumps)
        if g.raw is not None:
            prev_raw = g.raw

# --------------------------------------------------------------------------------------------- C01

def o_c01(run):
    out = []
    if run.kv.get('conc') == '1':
        return out          # controlled-schedule runs are judged by the linearizability oracle (the prefilled versions were not accepted in this trace)
    for g, pd, praw, st in iterate(run):
        op = g.meta.get('op')
        if op == 'walk' and g.ops:
            c = g.ops[0].client
            acc = st.acc[c]
            if not acc:
                continue
            seq = [r for r in g.ops if r.op == 'gcv']
            exp_parent = st.base(c)
            for k, a in enumerate(acc):
                if k >= len(seq):
                    out.append(fail('C01: the walk returns every accepted version', seq[-1] if seq else None, f'walk stopped after {len(seq)} of {len(acc)} versions'))
                    break
                r = seq[k]
                want = ('found', a[0], a[1], a[2])
                if r.i_out != want or r.arg != exp_parent:
                    out.append(fail('C01: walking child versions from the first parent returns every accepted version once, in order', r, f'step {k}: expected {want[:3]}, got {r.i_out[:3]}'))
                    break
                exp_parent = a[0]
            else:
                if len(seq) != len(acc) + 1 or seq[-1].i_out != ('notfound',):
                    out.append(fail('C01: the walk ends with not-found at the latest version', seq[-1] if seq else None, f'{len(seq)} answers for {len(acc)} versions, last={seq[-1].i_out if seq else None}'))
        # no shared parents, nothing extra: from the dumps (API view) and the raw tables
        for c, ds in g.dumps.items():
            d = parse_dump(ds)
            if d is None or ds in ('err', 'panic'):
                continue
            acc_after = list(st.acc[c])
            for r in g.ops:
                if r.op == 'av' and r.client == c and r.i_out[0] == 'ok':
                    acc_after.append((r.i_out[1], r.arg, None))
            ids = {a[0] for a in acc_after}
            parents = collections.Counter()
            for probe, v in d['V'].items():
                if v[0] not in ids:
                    out.append(fail('C01: only accepted versions are stored', g.dump_recs[0], f'client {c} stores version {v[0]} that was never accepted for it'))
                parents[v[1]] += 1
            for p, n in parents.items():
                if n > 1:
                    out.append(fail('C01: no two versions share a parent', g.dump_recs[0], f'client {c}: {n} versions with parent {p}'))
        if g.raw and g.raw not in ('empty', 'n/a'):
            per = collections.defaultdict(collections.Counter)
            for w in g.raw.split():
                if w.startswith('V:'):
                    vid, cl, par, _ = w[2:].split(',')
                    per[cl][par] += 1
            for cl, cnt in per.items():
                for p, n in cnt.items():
                    if n > 1:
                        out.append(fail('C01: no two versions share a parent', g.dump_recs[-1], f'table: client {cl}: {n} rows with parent {p}'))
    return out

# --------------------------------------------------------------------------------------------- C02

def o_c02_bin(run):
    """the real executable (no state dumps): the latest version is tracked from the 200 answers; a 409 must name it"""
    out = []
    if run.kv.get('binary') != '1' or run.setup != 'binary':
        return out
    latest = {}
    for r in run.recs:
        if r.ws[0] == 'reopen':
            continue
        if r.ws[0] != 'http' or r.op != 'av' or (r.meta or {}).get('unlisted') == '1':
            continue
        ih = parse_http_obs(r.impl)
        if not ih:
            continue
        c, st = r.client, ih.get('status')
        cur = latest.get(c, NIL)
        should = cur == NIL or r.arg == cur
        if st == 200:
            if not should:
                out.append(fail('C02: accepted exactly when the client has no versions or p is the latest', r, f'latest={cur} p={r.arg} answered 200'))
            if ih.get('vid') not in (None, '-'):
                latest[c] = ih['vid']
        elif st == 409:
            if should:
                out.append(fail('C02: accepted exactly when the client has no versions or p is the latest', r, f'latest={cur} p={r.arg} answered 409'))
            elif ih.get('pvid') != cur:
                out.append(fail('C02: a rejection names the current latest version', r, f'latest={cur} named={ih.get("pvid")} (real executable)'))
    return out

def o_c02(run):
    out = []
    sequential = run.kv.get('conc') != '1'
    for g, pd, praw, st in iterate(run):
        cur = dict(pd)
        touched = set()
        for r in g.ops:
            c0 = r.client
            first_of_client = c0 not in touched
            touched.add(c0)
            if r.op != 'av':
                continue
            c = r.client
            d = parse_dump(cur.get(c))
            if d is None:
                continue
            latest = d['latest']
            # from the implementation's ANSWERS alone (no dump of its own latest pointer is believed): the version most
            # recently accepted for this client is its latest - whatever other clients did in between (seeded C02-6: an
            # UPDATE without its WHERE clause moved every client's pointer, and dump and answers stayed consistent)
            if sequential and first_of_client and st.acc[c] and latest != st.acc[c][-1][0]:
                out.append(fail('C02: the accepted version becomes the latest, and stays it until this client has another version accepted', r, f'the last version accepted for client {c} is {st.acc[c][-1][0]} but its latest is now {latest}'))
            o = r.i_out
            if o[0] in ('nsc',):
                if latest != 'none' or run.entry == 'http':
                    out.append(fail('C02: AddVersion is answered accepted or conflict', r, f'answer {o} with latest={latest}'))
                continue
            if o[0] not in ('ok', 'conflict'):
                out.append(fail('C02: AddVersion is answered accepted or conflict', r, f'answer {o}'))
                continue
            should = latest in ('none', NIL) or r.arg == latest
            if should and o[0] != 'ok':
                out.append(fail('C02: accepted exactly when the client has no versions or p is the latest', r, f'latest={latest} p={r.arg} answer={o}'))
            if not should and o[0] != 'conflict':
                out.append(fail('C02: accepted exactly when the client has no versions or p is the latest', r, f'latest={latest} p={r.arg} answer={o}'))
            if o[0] == 'conflict' and not should and o[1] != latest:
                out.append(fail('C02: a rejection names the current latest version', r, f'latest={latest} named={o[1]}'))
            if o[0] == 'ok':
                if o[1] == NIL or o[1] in st.seen_ids or any(o[1] == a[0] for a in st.acc[c]):
                    out.append(fail('C02: the new version id is non-nil and never issued before', r, f'id={o[1]}'))
                # after-state: from this group's dumps if this is the last av of the group
                last_av = [x for x in g.ops if x.op == 'av'][-1]
                if last_av is r and c in g.dumps:
                    d2 = parse_dump(g.dumps[c])
                    if d2 and d2['latest'] != o[1]:
                        out.append(fail('C02: the new version becomes the latest', r, f'latest after = {d2["latest"]}'))
                    if d2:
                        v = d2['V'].get(o[1])
                        want = short_of_bytes(body_of(r))
                        if v is None or v[0] != o[1] or v[1] != r.arg or v[2] != want:
                            out.append(fail('C02: stored with exactly the submitted parent and payload', r, f'stored={v} want=({o[1]},{r.arg},{want})'))
                        # counter: +1 iff a snapshot exists
                        if d['snap'] and d2['snap'] and (d2['snap'][0] != d['snap'][0] or int(d2['snap'][2]) != int(d['snap'][2]) + 1):
                            out.append(fail('C02/C12: the versions-since counter is incremented by exactly one', r, f'{d["snap"]} -> {d2["snap"]}'))
            if o[0] == 'conflict':
                last_av = [x for x in g.ops if x.op == 'av'][-1]
                if last_av is r:
                    if c in g.dumps and c in pd and pd[c] != g.dumps[c]:
                        out.append(fail('C02: when rejected nothing about the client changes', r, f'client {c}: {pd[c][:120]} -> {g.dumps[c][:120]}'))
    return out

# --------------------------------------------------------------------------------------------- C07 / C06 (versions)

def o_c07(run):
    out = []
    for g, pd, praw, st in iterate(run):
        for r in g.ops:
            if r.op != 'gcv':
                continue
            c = r.client
            for a in st.acc[c]:
                if a[1] == r.arg:
                    want = ('found', a[0], a[1], a[2])
                    if r.i_out != want:
                        out.append(fail('C07: every later request for the child of an accepted version\'s parent returns that same version id, parent id and payload', r, f'expected {want[:3]} got {r.i_out[:3]}'))
                    break
    return out

def o_c06(run):
    out = []
    for x in o_c07(run):
        x = dict(x)
        x['sentence'] = 'C06: the bytes returned for a version are exactly the bytes uploaded in the request that created it, with the matching ids [' + x.get('sentence', '') + ']'
        out.append(x)
    for g, pd, praw, st in iterate(run):
        for r in g.ops:
            if r.op == 'gs' and r.i_out[0] == 'some':
                s = st.snap.get(r.client)
                if s is None or (r.i_out[1], r.i_out[2]) != s:
                    out.append(fail('C06: the bytes returned for a snapshot are exactly the bytes uploaded in the request that created it', r, f'expected {s} got {r.i_out[1:]}'))
    return out

# --------------------------------------------------------------------------------------------- C08

def o_c08(run):
    out = []
    for g, pd, praw, st in iterate(run):
        if g.meta.get('op') != 'gcv+av':
            continue
        gc = [r for r in g.ops if r.op == 'gcv']
        av = [r for r in g.ops if r.op == 'av']
        if not gc or not av:
            continue
        gr, ar = gc[0], av[-1]
        c = gr.client
        child = [a for a in st.acc[c] if a[1] == gr.arg]
        go, ao = gr.i_out, ar.i_out
        known_client = parse_dump(pd.get(c) or '') and parse_dump(pd.get(c))['latest'] != 'none'
        if child:
            if go[0] != 'found' or go[1] != child[0][0]:
                out.append(fail('C08: GetChildVersion(p) returns the child of p if one exists', gr, f'expected found {child[0][0]}, got {go[:2]}'))
            continue
        if go[0] == 'found':
            out.append(fail('C08: found only if a child exists', gr, f'got {go[:3]} but no accepted version has parent {gr.arg}'))
            continue
        # lib entry: an unknown client answers nsc on gcv; AddVersion (with creation) is then accepted
        acc = ao[0] == 'ok'
        rej = ao[0] == 'conflict'
        if go[0] in ('notfound', 'nsc') and not acc:
            out.append(fail('C08: not-found exactly when an AddVersion with parent p would be accepted', gr, f'gcv={go} av={ao}'))
        if go[0] == 'gone' and not rej:
            out.append(fail('C08: gone exactly when an AddVersion with parent p would be rejected', gr, f'gcv={go} av={ao}'))
        if go[0] not in ('notfound', 'nsc', 'gone'):
            out.append(fail('C08: the answer is found, not-found or gone', gr, f'gcv={go}'))
        if not known_client and go[0] not in ('notfound', 'nsc'):
            out.append(fail('C08: a client the server has never seen gets a not-found answer', gr, f'gcv={go}'))
    return out

# --------------------------------------------------------------------------------------------- C10 / C11

def c10_expect(chain, base, cursnap, v):
    """True / False / None (unspecified corner)"""
    if v == NIL:
        return False
    if v == cursnap:
        return False
    n = len(chain)
    if v in chain:
        i = n - 1 - chain.index(v)          # distance from the latest
        if i >= WINDOW:
            return False
        for j in range(i):
            if chain[n - 1 - j] == cursnap:
                return False
        return True
    if base is not None and v == base and base != NIL:
        return None
    return False

def o_c10(run):
    out = []
    for g, pd, praw, st in iterate(run):
        ars = [r for r in g.ops if r.op == 'as']
        if not ars:
            continue
        r = ars[0]
        c = r.client
        d = parse_dump(pd.get(c) or '')
        if d is None or pd.get(c) is None:
            continue
        if r.i_out[0] == 'nsc':
            if d['latest'] != 'none':
                out.append(fail('C10: the client is told success either way', r, f'answer {r.i_out} for a known client'))
            continue
        if r.i_out[0] != 'ok':
            out.append(fail('C10: the client is told success either way', r, f'answer {r.i_out}'))
            continue
        cursnap = d['snap'][0] if d['snap'] else None
        exp = c10_expect(st.chain(c), st.base(c), cursnap, r.arg)
        d2s = g.dumps.get(c)
        d2 = parse_dump(d2s) if d2s else None
        changed = d2s is not None and d2s != pd.get(c)
        replaced = d2 is not None and d2['snap'] is not None and d2['snap'][0] == r.arg and (d['snap'] is None or d['snap'][0] != r.arg)
        if exp is True and not replaced:
            out.append(fail('C10: an AddSnapshot for a recent, newer version replaces the stored snapshot', r, f'chain={len(st.chain(c))} cursnap={cursnap} v={r.arg} before={d["snap"]} after={d2["snap"] if d2 else None}'))
        if exp is False and changed:
            out.append(fail('C10: otherwise the stored snapshot and its bookkeeping stay untouched', r, f'cursnap={cursnap} v={r.arg} before={pd.get(c)[:160]} after={d2s[:160]}'))
        if replaced:
            want = short_of_bytes(body_of(r))
            if d2['snap'][2] != '0' or d2['data'] != want or abs(int(d2['snap'][1]) - r.now) > 5:
                out.append(fail('C10: on acceptance the record becomes (v, now, 0, data)', r, f'after={d2["snap"]} data={d2["data"]} want={want} now={r.now}'))
            # never backwards
            ch = st.chain(c)
            def pos(x):
                return ch.index(x) + 1 if x in ch else (0 if x == st.base(c) else -1)
            if cursnap is not None and pos(r.arg) <= pos(cursnap) and pos(cursnap) >= 0:
                out.append(fail('C10: the snapshot version only ever moves forward along the chain', r, f'{cursnap} (pos {pos(cursnap)}) -> {r.arg} (pos {pos(r.arg)})'))
            if pos(r.arg) < 0:
                out.append(fail('C10: the snapshot version lies on the chain', r, f'{r.arg} is not on the chain'))
        if (r.i_out[1] == '1') != replaced and d2 is not None:
            pass
    return out

def o_c11(run):
    out = []
    # "accepted" as the oracle sees it, request by request: the implementation's own report (the stored snapshot became
    # this version), or - independent of it, and of the size of the acceptance window - an AddSnapshot answered with
    # success for the client's LATEST version while the stored snapshot is another version: such a request meets every
    # condition of acceptance whatever the window is, so it IS the most recently accepted snapshot from then on.
    mine, latest_of, order = {}, {}, {}
    for g, pd, praw, st in iterate(run):
        ops = g.ops
        for k, r in enumerate(ops):
            c = r.client
            if c not in mine and st.snap.get(c) is not None:
                mine[c] = st.snap.get(c)
            if c not in latest_of and st.acc[c]:
                latest_of[c] = st.acc[c][-1][0]
            if r.op == 'av' and r.i_out[0] == 'ok':
                latest_of[c] = r.i_out[1]
            if r.op == 'av' and r.i_out[0] == 'ok':
                order.setdefault(c, []).append(r.i_out[1])
            if r.op == 'as' and r.i_out[0] == 'ok':
                cur = (mine.get(c) or (None,))[0]
                ch = order.get(c) or st.chain(c)
                # whatever the window is, the snapshot never moves BACKWARDS along the chain (Lean: C10_moves_forward): an
                # upload for a version older than the one that holds the snapshot is a decline, whatever the implementation did
                backwards = cur in ch and r.arg in ch and ch.index(r.arg) < ch.index(cur)
                if (r.i_out[1] == '1' and not backwards) or (r.arg == latest_of.get(c) and r.arg != NIL and cur != r.arg):
                    mine[c] = (r.arg, bodykey(r))
            if r.op != 'gs':
                continue
            s = mine.get(c)
            if r.i_out[0] in ('none', 'nsc'):
                if s is not None:
                    out.append(fail('C11: GetSnapshot returns the most recently accepted snapshot', r, f'expected {s[0]}, got {r.i_out}'))
            elif r.i_out[0] == 'some':
                if s is None or (r.i_out[1], r.i_out[2]) != s:
                    out.append(fail('C11: GetSnapshot returns precisely the version id and bytes of the most recently accepted snapshot, from the same upload', r, f'expected {s}, got {r.i_out[1:]}'))
            else:
                out.append(fail('C11: GetSnapshot answers a snapshot or not-found', r, f'{r.i_out}'))
        if g.meta.get('op') == 'snapwalk' and ops and ops[0].op == 'gs' and ops[0].i_out[0] == 'some':
            c = ops[0].client
            seq = [r for r in ops[1:] if r.op == 'gcv']
            chain = st.chain(c)
            latest = chain[-1] if chain else None
            cur = ops[0].i_out[1]
            ok = True
            for r in seq:
                if r.i_out[0] == 'found':
                    cur = r.i_out[1]
                elif r.i_out[0] == 'notfound':
                    break
                else:
                    ok = False
                    out.append(fail('C11: following child versions from the snapshot version never answers gone', r, f'{r.i_out}'))
                    break
            if ok and latest is not None and cur != latest:
                out.append(fail('C11: following child versions from the snapshot version reaches the latest version', seq[-1] if seq else ops[0], f'walk ended at {cur}, latest is {latest}'))
    return out

# --------------------------------------------------------------------------------------------- C12 (counter part on histories)

def o_c12_counter(run):
    out = []
    for g, pd, praw, st in iterate(run):
        pass
    # evaluate at the end of each group: counter in dump == versions accepted since the snapshot was stored
    for g, pd, praw, st in iterate(run):
        for c, ds in pd.items():
            d = parse_dump(ds)
            if d and d['snap'] and c in st.snap_since and st.snap.get(c, (None,))[0] == d['snap'][0]:
                if int(d['snap'][2]) != st.snap_since[c]:
                    out.append(fail('C12: the counter equals the number of versions accepted since the snapshot was stored', g.ops[0] if g.ops else None, f'client {c}: counter={d["snap"][2]} accepted-since={st.snap_since[c]}'))
    return out

def lvl_spec(x, t):
    # one and a half times = floor(3t/2) for t >= 0
    hi = (3 * t) // 2 if t >= 0 else -((-3 * t) // 2)
    return 'high' if x >= hi else ('low' if x >= t else 'none')

def urg_spec(days_cfg, vers_cfg, snap, now):
    if snap is None:
        return 'high'
    age = now - int(snap[1])
    d = age // 86400 if age >= 0 else -((-age) // 86400)
    a, b = lvl_spec(d, days_cfg), lvl_spec(int(snap[2]), vers_cfg)
    order = ['none', 'low', 'high']
    return order[max(order.index(a), order.index(b))]

def o_c12_urgency(run):
    """urgency of every accepted AddVersion = spec of the PRE-request snapshot record"""
    out = []
    days_cfg, vers_cfg = int(run.kv.get('days', 14)), int(run.kv.get('versions', 100))
    for g, pd, praw, st in iterate(run):
        cur = dict(pd)
        avs = [r for r in g.ops if r.op == 'av']
        for r in avs:
            if r.i_out[0] == 'panic':
                out.append(fail('C12: for every configured target value the computation succeeds', r, f'panic with days={days_cfg} versions={vers_cfg}'))
                continue
            if r.i_out[0] != 'ok' or r is not avs[0] and any(x.i_out[0] == 'ok' for x in avs[:avs.index(r)]):
                continue
            d = parse_dump(cur.get(r.client) or '')
            if d is None or cur.get(r.client) is None:
                continue
            snap = d['snap']
            if snap is not None:
                age = r.now - int(snap[1])
                if abs(age % 86400) < 30 or abs(age % 86400) > 86400 - 30:
                    continue    # within 30 s of a day boundary: the server's own clock reading may differ
            want = urg_spec(days_cfg, vers_cfg, snap, r.now)
            if r.i_out[2] != want:
                out.append(fail('C12: urgency is high/low/none by snapshot age and versions since, against the configured targets', r, f'days={days_cfg} versions={vers_cfg} snap={snap} now={r.now} expected {want} got {r.i_out[2]}'))
    return out

# --------------------------------------------------------------------------------------------- C18 / C09 frame

def o_c18(run):
    out = []
    if str(run.setup).startswith('grammar'):
        return out          # malformed-request runs: judged by the refused-request oracle (o_c15, relabelled in C18's plan)
    for g, pd, praw, st in iterate(run):
        if not g.dumps:
            continue
        mutating = False
        for r in g.ops:
            if r.op == 'av' and r.i_out[0] == 'ok': mutating = True
            if r.op == 'as' and r.i_out[0] == 'ok' and r.i_out[1] == '1':
                # the implementation replaced the snapshot. Whether it should have is C10's business - except when the
                # version is one that ANOTHER client was given and is neither one of this client's accepted versions nor the
                # parent its chain started from: such a request is declined whatever the window is, so it must leave the
                # state alone
                foreign = any(oc != r.client and r.arg in st.chain(oc) for oc in list(st.acc))
                own = r.arg in st.chain(r.client) or r.arg == st.base(r.client) or any(x.op == 'av' and x.client == r.client and x.i_out[0] == 'ok' and x.i_out[1] == r.arg for x in g.ops)
                if own or not foreign:
                    mutating = True
            if r.op in ('create', 'reopen'): mutating = True
            if r.op == 'av' and r.i_out[0] == 'nsc': pass
        if g.meta.get('op') == 'set_snapshot':
            mutating = True      # the harness wrote a snapshot record through the storage API (urgency scenario)
        if mutating or not g.ops:
            continue
        for c, ds in g.dumps.items():
            if c in pd and pd[c] != ds:
                out.append(fail('C18: reads and rejected writes leave every client\'s stored state exactly as it was', g.ops[0], f'client {c}: {pd[c][:200]} -> {ds[:200]}'))
        if g.raw is not None and praw is not None and g.raw != praw:
            out.append(fail('C18: reads and rejected writes leave the stored state exactly as it was', g.ops[0], 'raw tables changed'))
    return out

def o_c09_frame(run):
    out = []
    for g, pd, praw, st in iterate(run):
        if not g.dumps or not g.ops:
            continue
        cs = {r.client for r in g.ops if r.client}
        if not cs and all(r.op == 'reopen' for r in g.ops):
            # a restart is nobody's request: what it does to one client's data must not depend on what other clients stored
            for oc, ds in g.dumps.items():
                if oc in pd and pd[oc] != ds:
                    out.append(fail('C09: nothing belonging to a client changes except through requests made under its own id (here: across a restart of the storage)', g.ops[0], f'client {oc}: {pd[oc][:160]} -> {ds[:160]}'))
            continue
        if len(cs) != 1:
            continue
        c = next(iter(cs))
        for oc, ds in g.dumps.items():
            if oc != c and oc in pd and pd[oc] != ds:
                out.append(fail('C09: requests made under one client id never change anything belonging to another client id', g.ops[0], f'request of {c} changed client {oc}: {pd[oc][:160]} -> {ds[:160]}'))
    return out

# --------------------------------------------------------------------------------------------- aligned runs (C09 projection, C13, C14)

def canon_seq(run, only_client=None):
    """sequence of (opidx, sub, op, canonical outcome) with server-drawn ids renamed by order of acceptance per client"""
    ren = {}
    cnt = collections.Counter()
    seq = []
    sub = collections.Counter()
    for r in run.recs:
        if r.op not in ('av', 'gcv', 'as', 'gs'):
            continue
        if only_client is not None and r.client != only_client:
            continue
        if r.op == 'av' and r.i_out[0] == 'ok':
            ren[r.i_out[1]] = f'{r.client[:4]}#v{cnt[r.client]}'
            cnt[r.client] += 1
        def rn(x):
            if isinstance(x, tuple):
                return tuple(rn(y) for y in x)
            return ren.get(x, x)
        o = rn(r.i_out)
        if o and o[0] == 'nsc' and r.op in ('gcv',):
            o = ('notfound',)
        if o and o[0] == 'nsc' and r.op in ('gs',):
            o = ('none',)
        key = (r.opidx, sub[r.opidx])
        sub[r.opidx] += 1
        seq.append((key, r.op, rn(r.arg) if r.arg else None, o, r))
    return seq

def align_compare(a, b, sentence, only_client=None, skip_nsc_av=True):
    """compare two runs of the same abstract history position by position"""
    out = []
    sa = [x for x in canon_seq(a, only_client) if not (x[1] == 'av' and x[3][0] == 'nsc')]
    sb = [x for x in canon_seq(b, only_client) if not (x[1] == 'av' and x[3][0] == 'nsc')]
    da = collections.OrderedDict()
    for x in sa:
        da.setdefault(x[0][0], []).append(x)
    db = collections.OrderedDict()
    for x in sb:
        db.setdefault(x[0][0], []).append(x)
    for i in da:
        if i not in db:
            if not b.dead and not a.dead:
                out.append(fail(sentence, da[i][0][4], f'operation {i} missing in run {b.setup}'))
            continue
        xa, xb = da[i], db[i]
        for k in range(max(len(xa), len(xb))):
            if k >= len(xa) or k >= len(xb):
                out.append(fail(sentence, (xa + xb)[0][4], f'operation {i}: {len(xa)} answers in {a.setup}, {len(xb)} in {b.setup}'))
                break
            if xa[k][1:4] != xb[k][1:4]:
                out.append(fail(sentence, xa[k][4], f'operation {i}.{k}: {a.setup} answered {str(xa[k][3])[:160]} / {b.setup} answered {str(xb[k][3])[:160]}'))
                break
    return out

# --------------------------------------------------------------------------------------------- HTTP: C15 / C16 / C20 / C14

DEFECT_STATUS = {'method': 404, 'route': 404, 'pathid': 404, 'ctype': 400, 'cid': 400, 'emptybody': 400, 'toolarge': 400, 'unlisted': 403}

def http_groups(run):
    """(group, previous dumps, previous raw) for groups whose operation is a grammar request"""
    for g, pd, praw, st in iterate(run):
        if g.meta.get('op') == 'http' and g.ops:
            yield g, pd, praw

def unchanged(g, pd, praw):
    bad = []
    for c, ds in g.dumps.items():
        if c in pd and pd[c] != ds:
            bad.append(f'client {c}: {pd[c][:140]} -> {ds[:140]}')
    if g.raw is not None and praw is not None and g.raw != praw:
        bad.append('raw tables changed')
    return bad

def o_c14_unseen(run):
    """grammar runs: a well-formed GetChildVersion / AddSnapshot / GetSnapshot for a client the server has never seen is
    answered 404 - whatever REFUSED requests were made under that id before. "Seen" is what the answers say: the client had
    a record when the grammar phase began, or an AddVersion under its id was answered 200 or 409 since."""
    out = []
    seen, first = set(), True
    for g, pd, praw in http_groups(run):
        if first:
            seen |= {c for c, d in pd.items() if not (d or '').startswith('latest=none')}
            first = False
        r = g.ops[0]
        ih = r.i_out[1] if isinstance(r.i_out, tuple) and r.i_out[0] == 'http' else None
        if ih is None:
            continue
        hs = [w for w in r.lhs.split() if w.startswith('x-client-id=')]
        c = None
        if hs:            # a repeated header: the handler reads the first one
            try:
                import uuid as _uuid
                c = str(_uuid.UUID(bytes.fromhex(hs[0].split('=', 1)[1]).decode().strip()))     # simple / braced / urn / upper-case forms name the same id
            except Exception:
                c = None
        route = g.meta.get('route')
        if c and route == 'av' and ih['status'] in (200, 409):
            seen.add(c)
        if c is None or g.meta.get('defects', '-') != '-' or route not in ('gcv', 'as', 'gs'):
            continue
        if c in pd and c not in seen and ih['status'] != 404:
            out.append(fail('C14: 404 for a client the server has never seen (except on AddVersion, which creates it)', r, f'no AddVersion under client id {c} was ever answered 200 or 409 and it had no record at the start; answered {ih["status"]}'))
    return out

def o_c15(run):
    out = []
    for g, pd, praw in http_groups(run):
        r = g.ops[0]
        ih = r.i_out[1] if isinstance(r.i_out, tuple) and r.i_out[0] == 'http' else None
        if ih is None:
            continue
        st = ih['status']
        defects = [] if g.meta.get('defects', '-') == '-' else g.meta['defects'].split('+')
        if st == 'panic' or (isinstance(st, int) and st >= 500):
            out.append(fail('C15: no request makes the server fail with a 5xx or crash', r, f'status {st} for defects {defects} form {g.meta.get("form")}'))
            continue
        if defects:
            allowed = {DEFECT_STATUS[d] for d in defects}
            if st not in allowed or not (400 <= st < 500):
                out.append(fail('C15: a malformed or oversized request gets a 4xx response', r, f'status {st}, defects {defects} (allowed {sorted(allowed)}), form {g.meta.get("form")}'))
            bad = unchanged(g, pd, praw)
            if bad:
                out.append(fail('C15: a refused request changes no stored state', r, '; '.join(bad)[:400]))
            if ih.get('txns') not in (None, '0') and 'unlisted' in defects:
                pass
        else:
            form = g.meta.get('form', '')
            if 'body=limit' in form and st == 400:
                out.append(fail('C15: bodies up to and including the limit are accepted', r, f'status 400 for {form}'))
            if st not in (200, 409, 404, 410):
                out.append(fail('C15: a well-formed request is served', r, f'status {st} for a request without defects, form {form}'))
    return out

def o_c16(run):
    out = []
    if run.kv.get('binary') == '1':
        return out          # runs of the real executable are judged by the (relabelled) C17 oracle
    allow = run.kv.get('allow', 'none')
    for g, pd, praw in http_groups(run):
        r = g.ops[0]
        ih = r.i_out[1] if isinstance(r.i_out, tuple) and r.i_out[0] == 'http' else None
        if ih is None:
            continue
        st = ih['status']
        defects = [] if g.meta.get('defects', '-') == '-' else g.meta['defects'].split('+')
        route = g.meta.get('route')
        if 'unlisted' in defects and route in ('av', 'gcv', 'as', 'gs'):
            allowed = {DEFECT_STATUS[d] for d in defects}
            if defects == ['unlisted'] and st != 403:
                out.append(fail('C16: every protocol request carrying an unlisted client id is refused with 403', r, f'status {st} on route {route} with allow-list {allow[:80]}'))
            elif st not in allowed:
                out.append(fail('C16: a request with an unlisted client id is refused', r, f'status {st}, defects {defects}'))
            if ih.get('txns') not in (None, '0'):
                out.append(fail('C16: ... without reading or changing any stored state', r, f'{ih.get("txns")} storage transactions were opened'))
            bad = unchanged(g, pd, praw)
            if bad:
                out.append(fail('C16: ... without changing any stored state', r, '; '.join(bad)[:400]))
        if not defects and route in ('av', 'gcv', 'as', 'gs') and st == 403:
            out.append(fail('C16: listed clients (and every well-formed id when there is no list) are served', r, f'403 with allow-list {allow[:80]} form {g.meta.get("form")}'))
    return out

def o_c20(run):
    out = []
    for r in run.recs:
        if r.ws[0] not in ('http', 'xhttp'):
            continue
        ih = r.i_out[1] if r.ws[0] == 'http' and isinstance(r.i_out, tuple) and r.i_out[0] == 'http' else parse_http_obs(r.impl)
        if ih is None or ih.get('status') == 'panic':
            continue
        cc = unhex(ih.get('cc', '-'))
        if cc is None or 'no-store' not in cc.lower():
            out.append(fail('C20: every HTTP response carries a Cache-Control header forbidding storage', r, f'status {ih.get("status")} cache-control={cc!r}'))
    return out

HS_CT = 'application/vnd.taskchampion.history-segment'
SNAP_CT = 'application/vnd.taskchampion.snapshot'

def o_c14_table(run):
    """presence/absence of headers, content type and body per outcome, for well-formed protocol requests over HTTP"""
    out = []
    if run.entry != 'http':
        return out
    for r in run.recs:
        if r.ws[0] != 'http' or r.op not in ('av', 'gcv', 'as', 'gs'):
            continue
        ih = parse_http_obs(r.impl)
        if ih is None or not isinstance(ih.get('status'), int):
            continue
        st = ih['status']
        vid, pvid, sr, ct, body = ih.get('vid', '-'), ih.get('pvid', '-'), ih.get('sr', '-'), unhex(ih.get('ct', '-')), ih.get('body', '-')
        bad = None
        if r.op == 'av':
            if st == 200:
                if vid == '-' or pvid != '-' or sr not in ('-', 'low', 'high'): bad = 'accepted: X-Version-Id present, X-Parent-Version-Id absent, X-Snapshot-Request absent or urgency=low|high'
            elif st == 409:
                if pvid == '-' or vid != '-' or sr != '-': bad = 'conflict: X-Parent-Version-Id present, nothing else'
            else: bad = f'unexpected status {st}'
        elif r.op == 'gcv':
            if st == 200:
                if vid == '-' or pvid == '-' or ct != HS_CT or body == '-' or sr != '-': bad = 'found: both id headers, history-segment content type, payload'
            elif st in (404, 410):
                if vid != '-' or pvid != '-' or sr != '-': bad = 'not-found/gone: no protocol headers'
            else: bad = f'unexpected status {st}'
        elif r.op == 'as':
            if st == 200:
                if vid != '-' or pvid != '-' or sr != '-': bad = 'AddSnapshot 200: no protocol headers'
            elif st != 404: bad = f'unexpected status {st}'
        elif r.op == 'gs':
            if st == 200:
                if vid == '-' or ct != SNAP_CT or body == '-' or pvid != '-' or sr != '-': bad = 'GetSnapshot 200: X-Version-Id, snapshot content type, payload'
            elif st == 404:
                if vid != '-' or pvid != '-': bad = '404: no protocol headers'
            else: bad = f'unexpected status {st}'
        if bad:
            out.append(fail('C14: the HTTP status, headers and body carry precisely the protocol outcome', r, f'{bad}; got status={st} vid={vid} pvid={pvid} sr={sr} ct={ct}'))
    return out

# --------------------------------------------------------------------------------------------- C05

def o_c05(run):
    out = []
    prev_faulted_err = False
    for g, pd, praw, st in iterate(run):
        m = g.meta
        if 'fault' not in m or not g.ops:
            continue
        consumed = int(m.get('consumed', '0'))
        idx, kind = m['fault'].split(':')
        calls = m.get('calls', '').split(',')
        rs = [x for x in g.ops if x.op in ('av', 'gcv', 'as', 'gs', 'http')]
        if not rs:
            continue
        r = rs[-1]
        o = r.i_out if isinstance(r.i_out, tuple) else ('missing',)
        if r.ws[0] == 'http':
            ih = parse_http_obs(r.impl)
            stt = ih.get('status') if ih else None
            is_err = stt == 'panic' or (isinstance(stt, int) and stt >= 500)
            is_success = isinstance(stt, int) and stt < 400
            shown = stt
        else:
            is_err = o[0] in ('err', 'panic')
            is_success = o[0] in ('ok', 'found', 'some', 'none', 'notfound', 'gone', 'conflict')
            shown = o[:1]
        changed = unchanged(g, pd, praw)
        if consumed:
            if not is_err:
                out.append(fail('C05: if any storage step fails the client receives an error rather than a success acknowledgement', r, f'fault {m["fault"]} at call {calls[int(idx)] if int(idx) < len(calls) else "?"} was hit, answer {shown}'))
            name = calls[int(idx)] if int(idx) < len(calls) else '?'
            if changed and not (kind == 'after' and name == 'commit'):
                # the client-creation transaction of the HTTP AddVersion handler commits on its own (known shape F3):
                created_only = all('latest=none' in (pd.get(c) or '') and 'latest=00000000-0000-0000-0000-000000000000 snap=- data=none' in (g.dumps.get(c) or '') and ' V:' not in (g.dumps.get(c) or '') for c in g.dumps if pd.get(c) != g.dumps.get(c))
                if created_only and r.ws[0] == 'http':
                    out.append(dict(fail('C05/F3: a fault after the client-creation transaction leaves the (empty) client record behind', r, f'fault {m["fault"]} at {name}'), known_shape='F3'))
                else:
                    out.append(fail('C05: the stored versions, latest pointer and snapshot are exactly as before the request (or exactly as after it when only the acknowledgement was lost)', r, f'fault {m["fault"]} at call {name}: ' + '; '.join(changed)[:300]))
        else:
            if is_err:
                out.append(fail('C05: later requests are served normally', r, f'no fault was hit but the answer is {shown}'))
    return out

# --------------------------------------------------------------------------------------------- C03 (controlled schedules)

def _names_from_dump(d):
    """version id -> canonical name (its payload), plus structure"""
    names = {NIL: 'nil'}
    vers = {}
    for probe, v in d['V'].items():
        vers[v[0]] = (v[1], v[2])
        names[v[0]] = 'v[' + v[2] + ']'
    return names, vers

def _state_sig(dstr):
    d = parse_dump(dstr.replace(';', ' '))
    if d is None:
        return ('nodump',), {}, {}
    names, vers = _names_from_dump(d)
    ids = set(vers)
    bases = [p for (p, _) in vers.values() if p not in ids]
    # chain walk from the base(s)
    chain = []
    children = collections.defaultdict(list)
    for vid, (p, pl) in vers.items():
        children[p].append(vid)
    double = [p for p, c in children.items() if len(c) > 1]
    start = None
    roots = sorted(set(bases))
    orphans = []
    if len(roots) >= 1:
        # the chain the latest pointer sits on
        cur = d['latest']
        seen = []
        while cur in vers and cur not in seen:
            seen.append(cur)
            cur = vers[cur][0]
        chain = list(reversed(seen))
        orphans = sorted(names[v] for v in vers if v not in chain)
    nm = lambda x: names.get(x, 'base' if x in roots else ('none' if x in (None, 'none') else 'other'))
    snap = None
    if d['snap']:
        snap = (nm(d['snap'][0]), d['snap'][2], d['data'])
    sig = (nm(d['latest']), tuple(names[v] for v in chain), tuple(orphans), snap, d['latest'] == 'none')
    return sig, names, {'double': double, 'vers': vers, 'chain': chain}

def _canon_resp(kind, obs, names):
    if obs is None:
        return ('missing',)
    st = obs.get('status')
    nm = lambda x: names.get(x, 'id?')
    if st == 'panic':
        return ('panic',)
    if kind == 'av':
        if st == 200: return (200, 'accepted', obs.get('sr'))
        if st == 409: return (409, nm(obs.get('pvid')))
    if kind == 'gcv':
        if st == 200: return (200, nm(obs.get('vid')), nm(obs.get('pvid')), blob_key(obs.get('body', '-')))
    if kind == 'gs':
        if st == 200: return (200, nm(obs.get('vid')), blob_key(obs.get('body', '-')))
    return (st,)

def o_c03(run):
    out = []
    if run.kv.get('conc') != '1':
        return out
    reqs, res, evs, seqs, dump, illegal = {}, {}, [], [], None, []
    first = None
    for r in run.recs:
        k = r.ws[0]
        if first is None:
            first = r
        if k == 'req':
            kind = 'other'
            for name, rx in HTTP_ROUTES:
                if len(r.ws) > 4 and rx.match(r.ws[4]):
                    kind = {'add-version': 'av', 'get-child-version': 'gcv', 'add-snapshot': 'as', 'snapshot': 'gs'}[name]
            reqs[int(r.ws[1])] = (kind, r)
        elif k == 'res':
            res[int(r.ws[1])] = parse_http_obs(r.impl)
        elif k == 'ev':
            evs.append((int(r.ws[1]), r.ws[2]))
        elif k == 'illegal':
            illegal.append(r)
        elif k == 'seq':
            seqs.append(r)
        elif k == 'dump':
            dump = r
    n = len(reqs)
    if n == 0 or dump is None:
        return out
    for r in illegal:
        out.append(fail('C03: transactions are exclusive (a transaction began while another was open)', r, r.lhs))
    sig, names, extra = _state_sig(dump.impl)
    # the three "in particular" clauses
    for t in range(n):
        o = res.get(t)
        st = o.get('status') if o else None
        if st == 'panic' or (isinstance(st, int) and st >= 500):
            out.append(fail('C03: no request is answered with a server error merely because another request overlapped it', reqs[t][1], f'thread {t} ({reqs[t][0]}) answered {st}; trace: ' + ' '.join(f'{a}:{b}' for a, b in evs)[:600]))
    if extra.get('double'):
        out.append(fail('C03: two overlapping AddVersion requests are never both accepted on the same parent', dump, f'parents with two children: {extra["double"]}'))
    for t in range(n):
        o = res.get(t)
        if reqs[t][0] == 'av' and o and o.get('status') == 200 and o.get('vid') not in extra.get('chain', []):
            out.append(fail('C03: no accepted version is orphaned', reqs[t][1], f'thread {t} was told 200 with version {o.get("vid")} which is not on the chain of the latest version'))
    # linearizability against the implementation's own sequential runs
    start = {}; fin = {}
    for i, (t, lab) in enumerate(evs):
        if lab == 'start': start[t] = i
        if lab == 'finish': fin[t] = i
    def admissible(perm):
        pos = {t: k for k, t in enumerate(perm)}
        for a in range(n):
            for b in range(n):
                if a != b and a in fin and b in start and fin[a] < start[b] and pos[a] > pos[b]:
                    return False
        return True
    conc = [_canon_resp(reqs[t][0], res.get(t), names) for t in range(n)]
    ok = relaxed_ok = False
    tried = []
    for r in seqs:
        parts = r.lhs.split(' | ')
        perm = [int(x) for x in parts[0].split()[1].split(',')]
        if not admissible(perm):
            continue
        obs = [parse_http_obs(x.replace(';', ' ')) for x in parts[1].split(' ')]
        ssig, snames, _ = _state_sig(parts[2])
        sres = [_canon_resp(reqs[t][0], obs[t], snames) for t in range(n)]
        tried.append((perm, sres, ssig))
        if sres == conc and ssig == sig:
            ok = True
        relax = lambda rs: [(('as', 'any') if reqs[t][0] == 'as' and x[0] in (200, 404) else x) for t, x in enumerate(rs)]
        if relax(sres) == relax(conc) and ssig == sig:
            relaxed_ok = True
    if not ok and not out:
        det = f'concurrent answers {conc} state {sig}; sequential orders tried: ' + ' || '.join(f'{p}:{a} state {s}' for p, a, s in tried)
        f = fail('C03: each request completes with a response that some one-at-a-time ordering (respecting real-time order) would have produced, and leaves the state that ordering would leave', first, det[:1500])
        if relaxed_ok and any(reqs[t][0] == 'as' for t in range(n)) and run.kv.get('prefill') == '0':
            f['detail'] = 'F3-shape (AddSnapshot answered 200 between the client-creation transaction of a concurrent AddVersion and the first accepted version): ' + f['detail']
        out.append(f)
    return out

# --------------------------------------------------------------------------------------------- C04 (crash images)

EMPTY_CLIENT = 'latest=none snap=- data=none'
CREATED_CLIENT = 'latest=00000000-0000-0000-0000-000000000000 snap=- data=none'

def o_c15_bin(run):
    """the real executable: every malformed request is ANSWERED, with a 4xx; the server survives"""
    out = []
    if run.setup != 'binary-malformed':
        return out
    for r in run.recs:
        if r.ws[0] != 'xhttp':
            continue
        m = r.meta or {}
        ih = parse_http_obs(r.impl)
        st = ih.get('status') if ih else None
        if m.get('op') == 'malformed':
            if not isinstance(st, int):
                out.append(fail('C15: no request makes the server fail with a 5xx or crash; each gets a 4xx response', r, f'no answer at all ({r.impl}) to a request with client id {m.get("cid")} on route {m.get("route")} (real executable)'))
            elif st >= 500 or (m.get('want') == '4xx' and not 400 <= st < 500):
                out.append(fail('C15: no request makes the server fail with a 5xx or crash; each gets a 4xx response', r, f'status {st} for client id {m.get("cid")} on route {m.get("route")} (real executable)'))
        if m.get('op') == 'alive' and st != 200:
            out.append(fail('C15: no request makes the server crash, and none changes any stored state', r, f'after the malformed requests the stored version is answered {r.impl}'))
    return out

def o_overlap_done(run):
    """scenario `overlap`: the concurrently issued requests all completed"""
    out = []
    if not str(run.setup).startswith('overlap'):
        return out
    for r in run.recs:
        if r.ws[0] == 'xcmp' and len(r.ws) > 1 and r.ws[1] == 'deadlock':
            out.append(fail('C03: each request completes with a response', r, 'uploads of DIFFERENT clients issued concurrently on one service, their bodies arriving chunk by chunk: ' + str(r.impl)))
    return out

def o_c13_max(run):
    """payloads at the protocol's size limit: same outcome on both backends, and the bytes come back"""
    out = []
    if run.setup != 'maxrow':
        return out
    seen = {}
    for r in run.recs:
        if r.ws[0] != 'xcmp':
            continue
        seen[r.ws[2]] = (r, r.impl)
        ik = dict(w.split('=', 1) for w in (r.impl or '').split() if '=' in w)
        if ik.get('roundtrip') == '0':
            out.append(fail('C06: a payload of up to the size limit is returned byte for byte', r, f'backend {r.ws[2]}: {r.impl}'))
    if len(seen) >= 2:
        vals = {v for (_, v) in seen.values()}
        if len(vals) > 1:
            r = seen.get('sql', next(iter(seen.values())))[0]
            out.append(fail('C13: the same request history yields the same responses on every storage backend (payload at the size limit)', r, ' vs '.join(f'{k}: {v}' for k, (_, v) in sorted(seen.items()))))
    return out

def o_c04_bin(run):
    """the real executable killed under concurrent load and restarted through its own main: acknowledged versions are served"""
    out = []
    if run.setup != 'binary-crash':
        return out
    for r in run.recs:
        if r.ws[0] == 'restart' and r.impl != 'ok':
            out.append(fail('C04: after a crash the server starts again on the same directory', r, f'restart {r.impl}'))
        if r.ws[0] != 'xhttp' or (r.meta or {}).get('op') != 'ackcheck':
            continue
        ih = parse_http_obs(r.impl)
        want = r.meta.get('want')
        if not ih or ih.get('status') != 200 or ih.get('vid') != want:
            out.append(fail('C04: every acknowledged AddVersion is still present after a crash (real executable, killed under concurrent load, restarted)', r, f'acknowledged version {want}; after the restart GetChildVersion of its parent answers {ih.get("status") if ih else None} vid={ih.get("vid") if ih else None}'))
    return out

def o_c04(run):
    out = []
    ref = {}          # request index -> {client: dump}
    for g, pd, praw, st in iterate(run):
        if g.meta.get('op') == 'refdump':
            ref[int(g.meta['i'])] = dict(g.dumps)
    clients = run.clients
    init = {c: EMPTY_CLIENT for c in clients}
    def norm(d):
        return EMPTY_CLIENT if d == CREATED_CLIENT else d
    last_process = None
    stats = collections.Counter()
    for r in run.recs:
        if r.ws[0] != 'crash':
            continue
        kv = dict(w.split('=', 1) for w in r.ws[3:] if '=' in w)
        acked, infl = int(kv.get('acked', -1)), int(kv.get('inflight', -1))
        obs = r.impl
        if obs == 'same':
            obs = last_process
        elif r.ws[2] == 'process':
            last_process = obs
        if obs is None:
            continue
        stats[r.ws[2].split(':')[0]] += 1
        parts = obs.split(' | ')
        if not parts[0].startswith('integrity=ok'):
            out.append(fail('C04: after restart the database opens cleanly', r, parts[0][:200]))
            continue
        got = {}
        for p in parts[1:]:
            c, d = p.split(' ', 1)
            got[c] = d
        allowed = [ref.get(acked, init) if acked >= 0 else init]
        if infl >= 0 and infl in ref:
            allowed.append(ref[infl])
        ok = False
        used_empty = False
        for a in allowed:
            if all(got.get(c) == a.get(c, EMPTY_CLIENT) for c in clients):
                ok = True
                break
            if all(norm(got.get(c)) == norm(a.get(c, EMPTY_CLIENT)) for c in clients):
                ok = True
                used_empty = True
                break
        if used_empty:
            stats['empty_client_identified'] += 1
        if not ok:
            which = [c for c in clients if all(norm(got.get(c)) != norm(a.get(c, EMPTY_CLIENT)) for a in allowed)]
            c = which[0] if which else clients[0]
            lost = acked >= 0 and norm(got.get(c)) != norm(allowed[0].get(c, EMPTY_CLIENT))
            out.append(fail('C04: every acknowledged AddVersion / AddSnapshot is still present and each request in flight is either completely applied or completely absent', r,
                            f'{r.ws[2]} image after fs-op {r.ws[1]}: acked={acked} inflight={infl}; client {c} recovered as {str(got.get(c))[:200]} ; allowed: ' + ' OR '.join(str(a.get(c))[:160] for a in allowed)))
    run.c04_stats = stats
    return out

# --------------------------------------------------------------------------------------------- C17 (real binary)

def o_c17(run):
    out = []
    if run.kv.get('binary') != '1':
        return out
    days, vers = int(run.kv.get('days', 14)), int(run.kv.get('versions', 100))
    allow = run.kv.get('allow', 'none')
    snap = None          # (ts, since) as the oracle tracks it
    chain = []
    restarted = False
    walks = []           # (chain expected, [(status, version id)], how) per restart
    for r in run.recs:
        m = r.meta or {}
        if r.ws[0] == 'config':
            iw = (r.impl or '').split()
            ik = dict(w.split('=', 1) for w in iw[1:] if '=' in w)
            exp_ports = sorted(m.get('expected_ports', '').split(','))
            got_ports = sorted(a.split(':')[-1] for a in ik.get('listen', '').split(',') if a)
            if m.get('occupied'):
                # one of the given addresses is held by another process: serving on every address given is impossible,
                # so the only conforming behaviour is not to come up at all
                if iw[:1] == ['ok']:
                    out.append(fail('C17: it serves on every listen address given', r, f'address 127.0.0.1:{m.get("occupied")} could not be bound (held by another process), yet the server runs and serves only on ports {got_ports} of {exp_ports}'))
                continue
            if iw[:1] != ['ok']:
                out.append(fail('C17: the server starts with the given configuration and serves on every listen address', r, f'did not start: {r.impl}'))
            elif exp_ports != got_ports:
                out.append(fail('C17: it serves on every listen address given (and on no other)', r, f'expected ports {exp_ports}, listening {got_ports}'))
            if iw[:1] == ['ok'] and ik.get('dir') in (None, '-'):
                out.append(fail('C17: it keeps its data in the given directory', r, f'the directory was not created: {r.lhs[:200]}'))
            continue
        if r.ws[0] == 'dircheck':
            if r.impl != 'ok':
                out.append(fail('C17: it keeps its data in the given directory', r, f'after the requests, the directory given and its surroundings: {r.impl}'))
            continue
        if r.ws[0] == 'restart':
            restarted = True
            walks.append((list(chain), [], 'moved to another place, ' if m.get('moved') == '1' else ''))
            if r.impl != 'ok':
                out.append(fail('C17: a restart on the same directory serves', r, f'restart {r.impl}'))
            continue
        if r.ws[0] != 'http':
            continue
        ih = parse_http_obs(r.impl)
        st = ih.get('status') if ih else None
        if m.get('case'):
            continue      # the other outcome classes: compared with the model and judged by the oracles of C02 / C14
        if m.get('route') == 'index' and st != 200:
            out.append(fail('C17: it serves on every listen address given', r, f'GET / on port #{m.get("port")} answered {st}'))
        if m.get('unlisted') == '1' and st != 403:
            out.append(fail('C17: it enforces exactly the given client-id allow-list', r, f'unlisted client answered {st} (allow-list {allow[:80]})'))
        if m.get('op') == 'av' and m.get('unlisted') != '1':
            if st != 200:
                out.append(fail('C17: listed clients are served', r, f'AddVersion on the latest answered {st}'))
                continue
            want = urg_spec(days, vers, None if snap is None else (None, snap[0], snap[1]), r.now or 0)
            got = {'-': 'none'}.get(ih.get('sr', '-'), ih.get('sr'))
            if got != want and not restarted:
                out.append(fail('C17: it applies the given snapshot targets when requesting snapshots', r, f'days={days} versions={vers} snapshot={snap}: expected urgency {want}, got {got}'))
            chain.append(ih.get('vid'))
            if snap is not None:
                snap = (snap[0], snap[1] + 1)
        if m.get('op') == 'as' and st == 200:
            snap = (r.now or 0, 0)
        if m.get('op') == 'walk' and walks:
            walks[-1][1].append((st, ih.get('vid')))
        if m.get('op') == 'gs' and restarted and snap is not None and st != 200:
            out.append(fail('C17: a restart on the same directory serves the same history (snapshot)', r, f'GetSnapshot after restart answered {st}'))
    for want, walk, how in walks:
        got = [v for (st, v) in walk if st == 200]
        if walk and (got != want or walk[-1][0] != 404):
            out.append(fail('C17: a restart on the same directory serves the same history', None, f'{how}chain before the kill: {want}; walk after restart: {walk}'))
    return out

# --------------------------------------------------------------------------------------------- C19 (fixtures written by the pinned release)

def o_c19(run):
    out = []
    if 'fixture' not in run.kv:
        return out
    expect = {}
    walks = collections.defaultdict(list)     # client -> list of walk groups (each a list of gcv recs)
    opened = False
    for r in run.recs:
        if r.ws[0] == 'open':
            opened = True
            if r.impl != 'ok integrity=ok':
                out.append(fail('C19: a data directory written by the pinned release opens with the current code', r, f'{r.impl}'))
                return out
        elif r.ws[0] == 'expect':
            expect[r.ws[1]] = r.ws[2].replace(';', ' ')
        elif r.op == 'dump' and r.meta and r.meta.get('op') == 'fixture-dump':
            want = expect.get(r.client)
            if want is not None and r.impl != want:
                out.append(fail('C19: it serves exactly the history it contained: every client, version, payload, latest pointer and snapshot', r, f'client {r.client}: expected {want[:300]} ; served {str(r.impl)[:300]}'))
    if not opened:
        return out
    for g, pd, praw, st in iterate(run):
        op = g.meta.get('op')
        if op == 'walk' and 'ci' in g.meta and int(g.meta['ci']) < len(run.clients):
            walks[run.clients[int(g.meta['ci'])]].append([x for x in g.ops if x.op == 'gcv'])
        if op == 'snapwalk' and g.ops and g.ops[0].op == 'gs':
            c = g.ops[0].client
            d = parse_dump(expect.get(c, ''))
            o = g.ops[0].i_out
            if d and d['snap']:
                if o[0] != 'some' or o[1] != d['snap'][0] or short_of_bytes(blob_bytes(parse_http_obs(g.ops[0].impl).get('body', '-'))) != d['data']:
                    out.append(fail('C19: the snapshot is served as it was stored', g.ops[0], f'expected {d["snap"][0]} data {d["data"]}, got {o[:2]}'))
            elif d and o[0] == 'some':
                out.append(fail('C19: the snapshot is served as it was stored', g.ops[0], f'no snapshot expected, got {o[:2]}'))
        if op == 'av' and g.ops:
            r = g.ops[-1]
            cls = g.meta.get('class')
            if cls == 'latest' and r.i_out[0] != 'ok':
                out.append(fail('C19: new versions can then be appended to the existing chains', r, f'AddVersion on the latest version answered {r.i_out}'))
    for c, ws in walks.items():
        d = parse_dump(expect.get(c, ''))
        if d is None or not ws:
            continue
        stored = {v[0]: v for v in d['V'].values()}
        first = ws[0]
        found = [x for x in first if x.i_out[0] == 'found']
        ids = [x.i_out[1] for x in found]
        if sorted(ids) != sorted(stored) or len(set(ids)) != len(ids):
            out.append(fail('C19: every version of the stored history is served by walking the chain', first[0] if first else None, f'client {c}: stored {len(stored)} versions, walk returned {len(ids)}'))
        for x in found:
            v = stored.get(x.i_out[1])
            body = blob_bytes(parse_http_obs(x.impl).get('body', '-'))
            if v and (x.i_out[2] != v[1] or short_of_bytes(body) != v[2]):
                out.append(fail('C19: versions are served with their parent and payload', x, f'expected {v}, got parent {x.i_out[2]} payload {short_of_bytes(body)}'))
        if first and first[-1].i_out[0] != 'notfound':
            out.append(fail('C19: the chain walk ends at the latest version', first[-1], f'{first[-1].i_out}'))
        if len(ws) > 1:
            n2 = len([x for x in ws[1] if x.i_out[0] == 'found'])
            if n2 != len(ids) + 1:
                out.append(fail('C19: new versions can then be appended to the existing chains', ws[1][0] if ws[1] else None, f'client {c}: walk after the append returned {n2} versions, expected {len(ids) + 1}'))
    return out
