"""Translate the SQL that sqlite/src/lib.rs executes – statement text and parameter lists, per trait method – from
/repo's CURRENT source into the miniature-SQL ASTs of Tcs/Model/SqlSem.lean (generated file Tcs/Generated/SqlSrc.lean).
The tie theorems (Proofs/SqlSrcTie.lean) are proved about the GENERATED terms, so a changed statement (a dropped
`AND client_id = ?`, `INSERT OR REPLACE` for `INSERT`, a missing `+ 1`, `BEGIN` for `BEGIN IMMEDIATE`, another journal
mode, an extra statement at open) breaks a proof obligation on the next run.

Not translated (hand-modelled, validated by the correspondence runs): the row-decoding closures, rusqlite's
`query_row(..).optional()`, error conversion. If the source cannot be parsed at all the stated terms are written and the
evidence says so."""
import re, os, sys, json

REPO = '/repo'
COLS = ['client_id', 'latest_version_id', 'snapshot_version_id', 'versions_since_snapshot', 'snapshot_timestamp', 'snapshot',
        'version_id', 'parent_version_id', 'history_segment']
TBLS = ['clients', 'versions']

def lstr(x):
    return '"' + x.replace('\\', '\\\\').replace('"', '\\"') + '"'
def col(c):
    c = c.strip().lower()
    return f'.{c}' if c in COLS else f'(.unknown {lstr(c)})'
def norm_sql(s):
    return re.sub(r'\s+', ' ', s).strip().rstrip(';').strip()

def pidx(num, counter):
    """index of a placeholder: `?N` is the N-th parameter, an anonymous `?` the next one (SQLite: one more than the largest
    index used so far)"""
    if num:
        i = int(num) - 1
        counter[0] = max(counter[0], i + 1)
        return i
    i = counter[0]; counter[0] += 1
    return i

def parse_where(w, counter):
    conds = []
    for part in re.split(r'\s+and\s+', w.strip(), flags=re.I):
        m = re.fullmatch(r'(\w+)\s*=\s*\?(\d*)', part.strip())
        if not m: return None
        conds.append((m.group(1), pidx(m.group(2), counter)))
    return conds

def parse_stmt(sql):
    """-> Lean term of type Stmt"""
    s = norm_sql(sql)
    other = f'(.other {lstr(s)})'
    m = re.fullmatch(r'select\s+(.+?)\s+from\s+(\w+)\s+where\s+(.+?)(\s+limit\s+1)?', s, re.I)
    if m and m.group(2).lower() in TBLS:
        cols = [c.strip() for c in m.group(1).split(',')]
        if not all(re.fullmatch(r'\w+', c) for c in cols): return other
        cnt = [0]; w = parse_where(m.group(3), cnt)
        if w is None: return other
        return f'(.select [{", ".join(col(c) for c in cols)}] .{m.group(2).lower()} [{", ".join(f"({col(c)}, {i})" for c, i in w)}] {"true" if m.group(4) else "false"})'
    m = re.fullmatch(r'insert\s+(or\s+replace\s+)?into\s+(\w+)\s*\(([^)]*)\)\s*values\s*\(([^)]*)\)', s, re.I)
    if m and m.group(2).lower() in TBLS:
        cols = [c.strip() for c in m.group(3).split(',')]
        vals = [v.strip() for v in m.group(4).split(',')]
        if len(cols) != len(vals) or any(not re.fullmatch(r'\?\d*', v) for v in vals) or not all(re.fullmatch(r'\w+', c) for c in cols): return other
        cnt = [0]
        idxs = [pidx(v[1:], cnt) for v in vals]
        return f'(.insert {"true" if m.group(1) else "false"} .{m.group(2).lower()} [{", ".join(col(c) for c in cols)}] [{", ".join(str(i) for i in idxs)}])'
    m = re.fullmatch(r'update\s+(\w+)\s+set\s+(.+?)\s+where\s+(.+)', s, re.I)
    if m and m.group(1).lower() in TBLS:
        cnt = [0]; sets = []
        for part in m.group(2).split(','):
            p = part.strip()
            a = re.fullmatch(r'(\w+)\s*=\s*\?(\d*)', p)
            b = re.fullmatch(r'(\w+)\s*=\s*(\w+)\s*\+\s*(\d+)', p)
            if a:
                sets.append(f'({col(a.group(1))}, .param {pidx(a.group(2), cnt)})')
            elif b:
                sets.append(f'({col(b.group(1))}, .colPlus {col(b.group(2))} {b.group(3)})')
            else:
                return other
        w = parse_where(m.group(3), cnt)
        if w is None: return other
        # the order of the assignments of a SET list means nothing in SQL (every right-hand side sees the old row): canonical order
        CANON = ['latest_version_id', 'snapshot_version_id', 'snapshot_timestamp', 'versions_since_snapshot', 'snapshot']
        keyof = lambda t: (CANON.index(re.match(r'\(\.(\w+)', t).group(1)) if re.match(r'\(\.(\w+)', t) and re.match(r'\(\.(\w+)', t).group(1) in CANON else 99)
        sets = sorted(sets, key=keyof)
        return f'(.update .{m.group(1).lower()} [{", ".join(sets)}] [{", ".join(f"({col(c)}, {i})" for c, i in w)}])'
    return other

# ---- Rust side -----------------------------------------------------------------------------------------------

def strip_tests(src):
    i = src.find('#[cfg(test)]')
    return src if i < 0 else src[:i]

def block_after(src, start):
    """text of the {...} block whose '{' is the first one at or after `start` (string literals respected)"""
    i = src.index('{', start); depth = 0; j = i; in_str = False
    while j < len(src):
        ch = src[j]
        if in_str:
            if ch == '\\': j += 1
            elif ch == '"': in_str = False
        else:
            if ch == '"': in_str = True
            elif ch == '{': depth += 1
            elif ch == '}':
                depth -= 1
                if depth == 0: return src[i + 1:j]
        j += 1
    raise ValueError('unbalanced block')

def fn_def(src, name):
    m = re.search(r'fn\s+' + re.escape(name) + r'\b[^({;]*\(', src)
    if not m: raise ValueError(f'fn {name} not found')
    # parameter list
    i = m.end(); depth = 1; j = i
    while depth:
        depth += {'(': 1, ')': -1}.get(src[j], 0); j += 1
    params = [p.strip() for p in split_top(src[i:j - 1]) if p.strip()]
    names = []
    for p in params:
        if 'self' in p.split(':')[0]: continue
        names.append(p.split(':')[0].strip())
    return names, block_after(src, j)

def split_top(s):
    out, depth, cur, in_str = [], 0, '', False
    k = 0
    while k < len(s):
        ch = s[k]
        if in_str:
            cur += ch
            if ch == '\\': cur += s[k + 1]; k += 1
            elif ch == '"': in_str = False
        else:
            if ch == '"': in_str = True; cur += ch
            elif ch in '([{': depth += 1; cur += ch
            elif ch in ')]}': depth -= 1; cur += ch
            elif ch == ',' and depth == 0: out.append(cur); cur = ''
            else: cur += ch
        k += 1
    if cur.strip(): out.append(cur)
    return out

def unquote(lit):
    lit = lit.strip()
    m = re.fullmatch(r'"((?:[^"\\]|\\.)*)"', lit, re.S)
    if not m: return None
    return re.sub(r'\\\n\s*', '', m.group(1)).replace('\\"', '"')

def calls(body):
    """(callee, [args]) for .execute( / .query_row( / get_version_impl( in order of appearance"""
    out = []
    for m in re.finditer(r'(\.execute|\.query_row|get_version_impl)\s*\(', body):
        i = m.end(); depth = 1; j = i; in_str = False
        while depth and j < len(body):
            ch = body[j]
            if in_str:
                if ch == '\\': j += 1
                elif ch == '"': in_str = False
            else:
                if ch == '"': in_str = True
                elif ch in '([{': depth += 1
                elif ch in ')]}': depth -= 1
            j += 1
        out.append((m.group(1).lstrip('.'), [a.strip() for a in split_top(body[i:j - 1])]))
    return out

def param_list(arg):
    a = arg.strip()
    m = re.fullmatch(r'params!\s*\[(.*)\]', a, re.S) or re.fullmatch(r'&?\[(.*)\]', a, re.S)
    if not m: return None
    return [x.strip() for x in split_top(m.group(1)) if x.strip()]

ROLES = {   # method -> role of each formal parameter BY POSITION (so that renaming a parameter is harmless)
    'get_client': [], 'new_client': ['latestVersionId'], 'set_snapshot': ['SNAPSHOT', 'snapData'], 'get_snapshot_data': ['versionId'],
    'get_version_by_parent': ['parentVersionId'], 'get_version': ['versionId'], 'add_version': ['versionId', 'parentVersionId', 'historySegment'],
    'commit': [],
}
SNAP_FIELDS = {'.version_id': 'snapVersionId', '.timestamp.timestamp()': 'snapTimestamp', '.versions_since': 'snapVersionsSince'}

def psrc(expr, formals, roles, subst=None):
    e = re.sub(r'\s+', '', expr).lstrip('&')
    m = re.fullmatch(r'StoredUuid\((.*)\)', e)
    if m: e = m.group(1).lstrip('&')
    if subst and e in subst:
        return subst[e]
    if e == 'self.client_id': return '.clientId'
    for k, f in enumerate(formals):
        if k < len(roles):
            if roles[k] == 'SNAPSHOT':
                for suf, r in SNAP_FIELDS.items():
                    if e == f + suf: return '.' + r
            elif e == f:
                return '.' + roles[k]
    return f'(.other {lstr(e)})'

def method_calls(src, name, impl_info):
    formals, body = fn_def(src, name)
    roles = ROLES[name]
    out = []
    # a parameter bound to a local first (`let secs = snapshot.timestamp.timestamp();`) is that expression
    blets = {m.group(1): m.group(2).strip() for m in re.finditer(r'\blet\s+(\w+)\s*=\s*([^;{}]+?);', body)}
    def unlet(p):
        q = p.strip()
        amp = q.startswith('&')
        core = q[1:].strip() if amp else q
        return (('&' if amp else '') + blets[core]) if core in blets else p
    for callee, args in calls(body):
        if callee == 'get_version_impl':
            sql = unquote(args[0])
            if sql is None or impl_info is None: raise ValueError('get_version_impl call not understood')
            iformals, iparams = impl_info          # formals of the helper (after the query), its params! list
            actual = {f: psrc(a, formals, roles) for f, a in zip(iformals[1:], args[1:])}
            ps = [psrc(p, [], [], subst=actual) for p in iparams]
            out.append((parse_stmt(sql), ps))
        else:
            sql = unquote(args[0])
            if sql is None: raise ValueError(f'{name}: statement is not a literal')
            pl = param_list(args[1]) if len(args) > 1 else []
            if pl is None: raise ValueError(f'{name}: parameter list not understood: {args[1][:60]}')
            out.append((parse_stmt(sql), [psrc(unlet(p), formals, roles) for p in pl]))
    return out

def raw_sqls(body):
    out = []
    for lit in re.finditer(r'"((?:[^"\\]|\\.)*)"', body, re.S):
        s = norm_sql(re.sub(r'\\\n\s*', '', lit.group(1)))
        if re.match(r'(?i)(select|insert|update|delete|create|drop|alter|pragma|begin|commit|end|rollback|vacuum|replace)\b', s):
            out.append(s)
    return out

STATED = {
 'getClient': '[⟨(.select [.latest_version_id, .snapshot_timestamp, .versions_since_snapshot, .snapshot_version_id] .clients [(.client_id, 0)] true), [.clientId]⟩]',
 'newClient': '[⟨(.insert true .clients [.client_id, .latest_version_id] [0, 1]), [.clientId, .latestVersionId]⟩]',
 'setSnapshot': '[⟨(.update .clients [(.snapshot_version_id, .param 0), (.snapshot_timestamp, .param 1), (.versions_since_snapshot, .param 2), (.snapshot, .param 3)] [(.client_id, 4)]), [.snapVersionId, .snapTimestamp, .snapVersionsSince, .snapData, .clientId]⟩]',
 'getSnapshotData': '[⟨(.select [.snapshot, .snapshot_version_id] .clients [(.client_id, 0)] false), [.clientId]⟩]',
 'getByParent': '[⟨(.select [.version_id, .parent_version_id, .history_segment] .versions [(.parent_version_id, 0), (.client_id, 1)] false), [.parentVersionId, .clientId]⟩]',
 'getVersion': '[⟨(.select [.version_id, .parent_version_id, .history_segment] .versions [(.version_id, 0), (.client_id, 1)] false), [.versionId, .clientId]⟩]',
 'addVersion': '[⟨(.insert false .versions [.version_id, .client_id, .parent_version_id, .history_segment] [0, 1, 2, 3]), [.versionId, .clientId, .parentVersionId, .historySegment]⟩, ⟨(.update .clients [(.latest_version_id, .param 0), (.versions_since_snapshot, .colPlus .versions_since_snapshot 1)] [(.client_id, 1)]), [.versionId, .clientId]⟩]',
}
STATED_RAW = {
 'commitStmts': ['COMMIT'], 'beginStmts': ['BEGIN IMMEDIATE'], 'connStmts': [], 'unaccounted': [],
 'openStmts': ['PRAGMA journal_mode=WAL',
               'CREATE TABLE IF NOT EXISTS clients ( client_id STRING PRIMARY KEY, latest_version_id STRING, snapshot_version_id STRING, versions_since_snapshot INTEGER, snapshot_timestamp INTEGER, snapshot BLOB)',
               'CREATE TABLE IF NOT EXISTS versions (version_id STRING PRIMARY KEY, client_id STRING, parent_version_id STRING, history_segment BLOB)',
               'CREATE INDEX IF NOT EXISTS versions_by_parent ON versions (parent_version_id)'],
}
METHODS = [('getClient', 'get_client'), ('newClient', 'new_client'), ('setSnapshot', 'set_snapshot'), ('getSnapshotData', 'get_snapshot_data'),
           ('getByParent', 'get_version_by_parent'), ('getVersion', 'get_version'), ('addVersion', 'add_version')]

def inline_str_consts(src):
    """`const NAME: &str = "…";` / `static NAME: &'static str = "…";` at any level: every other occurrence of NAME is replaced by
    the literal (binding a statement text to a constant does not change what is sent to SQLite)"""
    decl = re.compile(r'(?:pub(?:\([^)]*\))?\s+)?(?:const|static)\s+([A-Z][A-Z0-9_]*)\s*:\s*&\s*(?:\'static\s+)?str\s*=\s*("(?:[^"\\]|\\.)*")\s*;', re.S)
    consts = {m.group(1): m.group(2) for m in decl.finditer(src)}
    if not consts:
        return src
    src = decl.sub('', src)
    for name, lit in consts.items():
        src = re.sub(r'\b' + name + r'\b', lambda _m, lit=lit: lit, src)
    return src

def extract():
    res, raw, source = {}, {}, {}
    try:
        src = strip_tests(open(os.path.join(REPO, 'sqlite/src/lib.rs')).read())
        src = re.sub(r'//[^\n]*', '', src)
        src = inline_str_consts(src)
    except Exception as e:
        src = ''
    impl_info = None
    try:
        iformals, ibody = fn_def(src, 'get_version_impl')
        ic = [c for c in calls(ibody) if c[0] in ('query_row', 'execute')]
        impl_info = (iformals, param_list(ic[0][1][1]))
    except Exception:
        impl_info = None
    # the trait impl (methods are looked up after `impl StorageTxn for`)
    k = src.find('impl StorageTxn for')
    tsrc = src[k:] if k >= 0 else src
    for lean, rust in METHODS:
        try:
            cs = method_calls(tsrc, rust, impl_info)
            res[lean] = '[' + ', '.join(f'⟨{s}, [{", ".join(ps)}]⟩' for s, ps in cs) + ']'
            source[lean] = 'translated'
        except Exception as e:
            res[lean] = STATED[lean]; source[lean] = f'not-translated ({e}); behavioural correspondence only'
    def grab_raw(key, f):
        try:
            raw[key] = f(); source[key] = 'translated'
        except Exception as e:
            raw[key] = STATED_RAW[key]; source[key] = f'not-translated ({e}); behavioural correspondence only'
    grab_raw('commitStmts', lambda: raw_sqls(fn_def(tsrc, 'commit')[1]))
    def begin():
        m = re.search(r'impl Storage for SqliteStorage', src)
        return raw_sqls(fn_def(src[m.start():], 'txn')[1])
    grab_raw('beginStmts', begin)
    grab_raw('connStmts', lambda: raw_sqls(fn_def(src, 'new_connection')[1]))
    grab_raw('openStmts', lambda: raw_sqls(fn_def(src, 'new')[1]))
    # every other SQL literal anywhere in the (non-test) file: there must be none (a Drop impl, a helper, a migration ...)
    def unaccounted():
        allq = raw_sqls(src)
        known = []
        for fn in ['new', 'new_connection', 'commit', 'get_client', 'new_client', 'set_snapshot', 'get_snapshot_data',
                   'get_version_by_parent', 'get_version', 'add_version']:
            try: known += raw_sqls(fn_def(tsrc if fn not in ('new', 'new_connection') else src, fn)[1])
            except Exception: pass
        try:
            m = re.search(r'impl Storage for SqliteStorage', src)
            known += raw_sqls(fn_def(src[m.start():], 'txn')[1])
        except Exception: pass
        rest = list(allq)
        for k in known:
            if k in rest: rest.remove(k)
        # connection settings changed through rusqlite's API rather than SQL text
        for m in re.finditer(r'\.(pragma_update(?:_and_check)?|pragma_query(?:_value)?|pragma|execute_batch|busy_timeout|busy_handler|set_db_config|transaction_with_behavior|unchecked_transaction|transaction|savepoint)\s*\(', src):
            i = m.end(); depth = 1; j = i
            while depth and j < len(src):
                depth += {'(': 1, ')': -1}.get(src[j], 0); j += 1
            rest.append(m.group(1) + '(' + re.sub(r'\s+', ' ', src[i:j - 1]).strip() + ')')
        return rest
    grab_raw('unaccounted', unaccounted)
    return res, raw, source

def render(res, raw):
    L = ["/- GENERATED by tools/sql2lean.py from /repo's current sqlite/src/lib.rs on every check run. Do not edit. -/",
         'import Tcs.Model.SqlSem', 'namespace Tcs', 'namespace SqlSrc']
    for k, v in res.items():
        L.append(f'def {k} : List StmtCall :=\n  {v}')
    for k, v in raw.items():
        L.append(f'def {k} : List String :=\n  [{", ".join(lstr(x) for x in v)}]')
    L += ['end SqlSrc', 'end Tcs', '']
    return '\n'.join(L)

def extract_and_write(path):
    res, raw, source = extract()
    txt = render(res, raw)
    os.makedirs(os.path.dirname(path), exist_ok=True)
    old = open(path).read() if os.path.exists(path) else None
    if old != txt:
        open(path, 'w').write(txt)
    diff = {k: v for k, v in res.items() if v != STATED[k]}
    diff.update({k: v for k, v in raw.items() if v != STATED_RAW[k]})
    return {'source': source, 'differs_from_stated': diff}

if __name__ == '__main__':
    print(json.dumps(extract_and_write(sys.argv[1] if len(sys.argv) > 1 else '/verif/lean/Tcs/Generated/SqlSrc.lean'), indent=1))
