"""Translate the HTTP handlers of server/src/api/*.rs (`client_id_header`, and `service` of get_child_version, add_version,
add_snapshot, get_snapshot) from /repo's CURRENT source into Lean definitions over the request model (`ReqM Response`,
Tcs/Generated/HandlerSrc.lean), statement by statement:

  if req.content_type() != CONST { return Err(ErrorBadRequest(..)) }     ->  if contentType r ≠ CONST then .done (refuse .badRequest) else …
  let client_id = server_state.client_id_header(&req)?;                  ->  match clientIdHeader h.allow r with | .error f => .done (refuse f) | .ok client_id => …
  let mut body = BytesMut::new(); while let Some(chunk) = payload.next().await { let chunk = chunk?; if COND { return Err(..) } body.extend_from_slice(&chunk); }
                                                                           ->  a recursive function over the list of chunks (COND translated), then a match on its result
  if body.is_empty() { return Err(..) }                                   ->  if body.size = 0 then … else …
  match server_state.server.OP(args) { arms }                             ->  .txn client_id (OP args) fun res => match res with | none => 500 | arms (responses translated field by field)
  loop { return match … { … Err(NoSuchClient) => { create-if-absent transaction; continue } … } }
                                                                           ->  a structurally recursive function over a fuel argument; `continue` = the recursive call
  HttpResponse::Ok().content_type(C).append_header((H, v.to_string())).body(b)   ->  { status := 200, ctype := some C, <field of H> := some v, body := b }

Plus the route table (`#[get("…")]` / `#[post("…")]` attributes) and the default headers of `WebServer::config`.
The tie theorems (Proofs/HandlerSrcTie.lean) state that the generated handlers are the hand-written ones of
Model/Http.lean. Anything outside the subset: `not-translated`, stated text written, behavioural correspondence only."""
import re, os, sys, json
sys.path.insert(0, os.path.dirname(os.path.abspath(__file__)))
from server2lean import tokenize, Parser, PE

REPO = '/repo'

class HParser(Parser):
    def stmt(self):
        if self.at('while') and self.peek(1) == 'let':
            self.eat('while'); self.eat('let'); pat = self.pattern(); self.eat('='); e = self.expr_nostruct(); b = self.block()
            return ('whilelet', pat, e, b)
        if self.at('continue'):
            self.eat('continue'); self.eat(';'); return ('continue',)
        if self.at('fn'):
            self.eat('fn'); name = self.eat()
            while not self.at('{'): self.eat()
            return ('fn', name, self.block())
        if self.at('match'):
            e = self.expr()
            semi = False
            if self.at(';'): self.eat(';'); semi = True
            return ('expr', e, semi)
        return super().stmt()
    def pattern(self):
        if self.at('&'): self.eat('&')
        if self.at('('):
            return super().pattern()
        p = super().pattern()
        return p

STATUS = {'Ok': 200, 'Conflict': 409, 'NotFound': 404, 'Gone': 410, 'BadRequest': 400, 'Forbidden': 403, 'InternalServerError': 500}
ERRFN = {'ErrorNotFound': 'refuse .notFound', 'ErrorBadRequest': 'refuse .badRequest', 'ErrorForbidden': 'refuse .forbidden',
         'ErrorGone': '{ status := 410, ctype := some "text/plain; charset=utf-8" }'}
HDR_FIELD = {'VERSION_ID_HEADER': 'vid', 'PARENT_VERSION_ID_HEADER': 'pvid', 'SNAPSHOT_REQUEST_HEADER': 'snapreq'}
CT_CONST = {'HISTORY_SEGMENT_CONTENT_TYPE': 'HS_CT', 'SNAPSHOT_CONTENT_TYPE': 'SNAP_CT'}

def is_path(e, suffix):
    return e[0] in ('var', 'call') and e[1].split('::')[-1] == suffix

class HEmit:
    def __init__(self, name, idparam, maxsize_field):
        self.name, self.idparam, self.maxsize_field = name, idparam, maxsize_field
        self.helpers = []
        self.errfns = {}       # nested fn name -> refusal term
        self.loop_name = None
    # ---------------------------------------------------------------- small expression translations
    def val(self, e):
        """a pure value expression (ids, bytes)"""
        if e[0] == 'var':
            if e[1] == 'NIL_VERSION_ID': return 'Uuid.nil'
            return e[1]
        if e[0] == 'method' and e[2] in ('to_string', 'to_vec', 'clone', 'into_inner', 'freeze') and not e[3]:
            return self.val(e[1])
        if e[0] == 'str':
            return e[1]
        raise PE(f'value expression {e[0]}')
    def refusal_of(self, e):
        """e = error::ErrorXxx(..)  or  nestedfn()  ->  Lean Response term"""
        if e[0] == 'call':
            f = e[1].split('::')[-1]
            if f in ERRFN: return ERRFN[f]
            if e[1] in self.errfns and not e[2]: return self.errfns[e[1]]
        raise PE(f'error constructor {e}')
    def refusal_kind(self, e):
        t = self.refusal_of(e)
        m = re.fullmatch(r'refuse \.(\w+)', t)
        if not m: raise PE('refusal kind')
        return '.' + m.group(1)
    def response(self, e):
        """HttpResponse builder chain -> Lean record"""
        fields = {}
        def walk(x):
            if x[0] == 'call' and x[1].startswith('HttpResponse::') and not x[2]:
                st = x[1].split('::')[1]
                if st not in STATUS: raise PE(f'status {st}')
                fields['status'] = str(STATUS[st]); return
            if x[0] == 'method':
                walk(x[1]); m, a = x[2], x[3]
                if m == 'content_type':
                    if a[0][0] == 'var' and a[0][1] in CT_CONST: fields['ctype'] = f'some {CT_CONST[a[0][1]]}'
                    else: raise PE('content type')
                elif m in ('append_header', 'insert_header'):
                    self.header_into(fields, a[0])
                elif m == 'body':
                    if a[0] == ('str', '""'): pass
                    else: fields['body'] = self.val(a[0])
                elif m == 'finish' and not a:
                    pass
                else:
                    raise PE(f'response builder method {m}')
                return
            raise PE(f'response expression {x[0]}')
        walk(e)
        order = ['status', 'ctype', 'vid', 'pvid', 'snapreq', 'body']
        return '{ ' + ', '.join(f'{k} := {fields[k]}' for k in order if k in fields) + ' }'
    def header_into(self, fields, tup):
        if tup[0] != 'tuple' or len(tup[1]) != 2 or tup[1][0][0] != 'var' or tup[1][0][1] not in HDR_FIELD: raise PE('header tuple')
        fld = HDR_FIELD[tup[1][0][1]]; v = tup[1][1]
        fields[fld] = f'some {self.val(v)}'
    # ---------------------------------------------------------------- result of a handler arm / tail:  Result<HttpResponse>
    def result(self, e):
        """Ok(response) | Err(error)  ->  `.done <Response>`"""
        if e[0] == 'call' and e[1] == 'Ok':
            inner = e[2][0]
            if inner[0] == 'var':            # Ok(rb) / variable built before
                return f'.done {inner[1]}'
            if inner[0] == 'method' and inner[2] == 'finish' and inner[1][0] == 'var':
                return f'.done {inner[1][1]}'
            return f'.done {self.response(inner)}'
        if e[0] == 'call' and e[1] == 'Err':
            inner = e[2][0]
            if inner[0] == 'call' and inner[1] == 'server_error_to_actix':
                return None                   # the catch-all arm: every remaining error is a storage error -> 500 (handled by the caller)
            return f'.done ({self.refusal_of(inner)})'
        raise PE(f'handler result {e[0]}')
    # ---------------------------------------------------------------- server operations
    def server_op(self, e):
        """server_state.server.OP(args)  ->  (client expr, Lean TxnM program, op name)"""
        if e[0] == 'method' and e[1] == ('field', ('var', 'server_state'), 'server'):
            op, a = e[2], e[3]
            c = self.val(a[0])
            if op == 'get_child_version': return c, f'(Tcs.getChildVersion {self.val(a[1])})', op
            if op == 'add_version': return c, f'(Tcs.addVersion h.cfg {self.val(a[1])} {self.val(a[2])} r.newId r.now)', op
            if op == 'add_snapshot': return c, f'(Tcs.addSnapshot h.params {self.val(a[1])} {self.val(a[2])} r.now)', op
            if op == 'get_snapshot': return c, 'Tcs.getSnapshot', op
        return None
    def arm_pattern(self, p, op):
        """match-arm pattern on Result<T, ServerError>  ->  Lean pattern on Option (Except SrvErr T)"""
        if p[0] == 'pctor' and p[1] == 'Err':
            inner = p[2]
            if inner == ('pvar', 'ServerError::NoSuchClient'): return 'some (.error .noSuchClient)'
            if inner[0] == 'pvar': return 'CATCHALL'
            raise PE('Err pattern')
        if p[0] == 'pctor' and p[1] == 'Ok':
            inner = p[2]
            if inner[0] == 'pstruct' and inner[1] == 'GetVersionResult::Success':
                names = dict((f, pp[1]) for f, pp in inner[2])
                return f'some (.ok (.found ⟨{names["version_id"]}, {names["parent_version_id"]}, {names["history_segment"]}⟩))'
            if inner == ('pvar', 'GetVersionResult::NotFound'): return 'some (.ok .notFound)'
            if inner == ('pvar', 'GetVersionResult::Gone'): return 'some (.ok .gone)'
            if inner[0] == 'ptuple' and len(inner[1]) == 2:
                a, b = inner[1]
                if a[0] == 'pctor' and a[1] == 'AddVersionResult::Ok' and a[2][0] == 'pvar':
                    return f'some (.ok (.ok {a[2][1]}, {b[1]}))'
                if a[0] == 'pctor' and a[1] == 'AddVersionResult::ExpectedParentVersion' and a[2][0] == 'pvar':
                    return f'some (.ok (.expected {a[2][1]}, {b[1]}))'
            raise PE(f'Ok pattern {inner}')
        raise PE(f'arm pattern {p}')
    def arm_body(self, body, loop_call):
        """-> Lean ReqM term for one arm"""
        if body[0] == 'blockexpr':
            return self.block(body[1], loop_call)
        r = self.result(body)
        return r
    def block(self, stmts, loop_call):
        """statements of an arm block: response building with a mutable builder, or the create-client transaction + continue"""
        stmts = [s for s in stmts if s != ('skip',)]
        out = []
        i = 0
        # pattern A: let mut rb = HttpResponse::X(); rb.append_header(..); match u {..}; Ok(rb.finish())
        if stmts and stmts[0][0] == 'let' and stmts[0][2][0] == 'call' and stmts[0][2][1].startswith('HttpResponse::'):
            rb = stmts[0][1][1]
            st = stmts[0][2][1].split('::')[1]
            out.append(f'let {rb} : Response := {{ status := {STATUS[st]} }}')
            for s in stmts[1:-1]:
                if s[0] == 'expr' and s[1][0] == 'method' and s[1][1] == ('var', rb) and s[1][2] in ('append_header', 'insert_header'):
                    f = {}; self.header_into(f, s[1][3][0]); (k, v), = f.items()
                    out.append(f'let {rb} := {{ {rb} with {k} := {v} }}')
                elif s[0] == 'expr' and s[1][0] == 'match':
                    arms = []
                    for p, b in s[1][2]:
                        if not (p[0] == 'pvar' and p[1].startswith('SnapshotUrgency::')): raise PE('urgency arm pattern')
                        ss = [x for x in (b[1] if b[0] == 'blockexpr' else []) if x != ('skip',)]
                        val = rb
                        for x in ss:
                            if x[0] == 'expr' and x[1][0] == 'method' and x[1][1] == ('var', rb) and x[1][2] in ('append_header', 'insert_header'):
                                f = {}; self.header_into(f, x[1][3][0]); (k, v), = f.items()
                                val = f'{{ {val} with {k} := {v} }}'
                            else:
                                raise PE('statement in urgency arm')
                        arms.append(f'| .{p[1].split("::")[1].lower()} => {val}')
                    out.append(f'let {rb} := (match {self.val(s[1][1])} with ' + ' '.join(arms) + ')')
                else:
                    raise PE(f'statement in response block: {s[0]}')
            last = stmts[-1]
            if not (last[0] == 'expr' and not last[2]): raise PE('response block tail')
            out.append(self.result(last[1]))
            return '\n    '.join(out)
        # pattern B: let mut txn = server_state.server.txn(client_id).map_err(..)?; if txn.get_client().map_err(..)?.is_none() { txn.new_client(NIL).map_err(..)?; txn.commit().map_err(..)?; } continue;
        if stmts and stmts[-1] == ('continue',) and loop_call:
            body = stmts[:-1]
            if not (body and body[0][0] == 'let' and body[0][1] == ('pvar', 'txn')): raise PE('create-client block')
            txn_e = body[0][2]
            # find the client the transaction is opened for
            def find_txn(x):
                if x[0] == 'method' and x[2] == 'txn': return self.val(x[3][0])
                if x[0] in ('try',): return find_txn(x[1])
                if x[0] == 'method': return find_txn(x[1])
                raise PE('txn expression')
            c = find_txn(txn_e)
            prog = self.txn_prog(body[1:])
            self.helpers.append(f'def {self.name}Ensure : TxnM Unit :=\n  {prog}\n')
            return f'.txn {c} {self.name}Ensure fun _r => (match _r with\n    | none => .done {{ status := 500 }}\n    | some () => {loop_call})'
        raise PE('arm block not understood')
    def strip_map_err(self, e):
        while True:
            if e[0] == 'try': e = e[1]; continue
            if e[0] == 'method' and e[2] == 'map_err': e = e[1]; continue
            return e
    def txn_prog(self, stmts):
        """statements on `txn` (each `.map_err(failure_to_ise)?`) -> TxnM Unit"""
        if not stmts:
            return '.ret ()'
        s, rest = stmts[0], stmts[1:]
        if s[0] == 'expr' and s[1][0] == 'if':
            cond, then, els = s[1][1], s[1][2], s[1][3]
            # txn.get_client().map_err(..)?.is_none()
            if cond[0] == 'method' and cond[2] in ('is_none', 'is_some') and not cond[3]:
                inner = self.strip_map_err(cond[1])
                if inner[0] == 'method' and inner[1] == ('var', 'txn') and inner[2] == 'get_client':
                    t = self.txn_prog([x for x in then if x != ('skip',)] + rest)
                    e = self.txn_prog([x for x in (els or []) if x != ('skip',)] + rest)
                    a, b = (t, e) if cond[2] == 'is_none' else (e, t)
                    return f'.call .getClient fun _c => (if _c.isNone then {a} else {b})'
            raise PE('condition in create-client block')
        if s[0] == 'expr':
            inner = self.strip_map_err(s[1])
            if inner[0] == 'method' and inner[1] == ('var', 'txn'):
                if inner[2] == 'new_client': return f'.call (.newClient {self.val(inner[3][0])}) fun _ => {self.txn_prog(rest)}'
                if inner[2] == 'commit': return f'.call .commit fun _ => {self.txn_prog(rest)}'
        raise PE(f'statement in create-client block: {s}')
    def match_server(self, m, loop_call):
        """match server_state.server.OP(..) { arms }  ->  .txn …"""
        sop = self.server_op(m[1])
        if not sop: raise PE('match scrutinee is not a server operation')
        c, prog, op = sop
        arms = []
        catchall = False
        for p, body in m[2]:
            lp = self.arm_pattern(p, op)
            if lp == 'CATCHALL':
                if self.arm_body(body, loop_call) is not None: raise PE('catch-all arm with its own response')
                catchall = True
                continue
            arms.append(f'    | {lp} =>\n    {self.arm_body(body, loop_call)}')
        if not catchall: raise PE('no catch-all error arm')
        return f'.txn {c} {prog} fun _res => (match _res with\n    | none => .done {{ status := 500 }}\n' + '\n'.join(arms) + ')'
    # ---------------------------------------------------------------- the handler body
    def seq(self, stmts):
        stmts = [s for s in stmts if s != ('skip',)]
        if not stmts: raise PE('handler falls off the end')
        s, rest = stmts[0], stmts[1:]
        k = s[0]
        if k == 'let':
            pat, e = s[1], s[2]
            # let X = path.into_inner();
            if e[0] == 'method' and e[1] == ('var', 'path') and e[2] == 'into_inner':
                if pat[1] != self.idparam: raise PE('path id name')
                return self.seq(rest)
            # let client_id = server_state.client_id_header(&req)?;
            if e[0] == 'try' and e[1][0] == 'method' and e[1][1] == ('var', 'server_state') and e[1][2] == 'client_id_header':
                v = pat[1]
                return f'(match Tcs.clientIdHeader h.allow r with\n  | .error _f => .done (refuse _f)\n  | .ok {v} =>\n  {self.seq(rest)})'
            # let mut body = web::BytesMut::new();  followed by the while-let loop
            if e[0] == 'call' and e[1].endswith('BytesMut::new') and rest and rest[0][0] == 'whilelet':
                return self.body_loop(pat[1], rest[0], rest[1:])
            raise PE(f'let statement in handler: {e[0]}')
        if k == 'expr' and s[1][0] == 'if':
            cond, then, els = s[1][1], s[1][2], s[1][3]
            if els is not None: raise PE('if/else statement in handler')
            then = [x for x in then if x != ('skip',)]
            if not (len(then) == 1 and then[0][0] == 'return'): raise PE('if without early return')
            ret = self.result(then[0][1])
            return f'(if {self.cond(cond)} then {ret}\n  else\n  {self.seq(rest)})'
        if k == 'loop':
            body = [x for x in s[1] if x != ('skip',)]
            if not (len(body) == 1 and body[0][0] == 'return' and body[0][1][0] == 'match'): raise PE('loop body')
            if rest: raise PE('statements after the loop')
            name = f'{self.name}Loop'
            self.loop_name = name
            call = f'{name} h r client_id {self.idparam} body _fuel'
            term = self.match_server(body[0][1], call)
            self.helpers.append(f'def {name} (h : HttpCfg) (r : Request) (client_id {self.idparam} : Uuid) (body : Bytes) : Nat → ReqM Response\n'
                                f'  | 0 => .done {{ status := 500 }}\n  | _fuel + 1 =>\n  {term}\n')
            return f'{name} h r client_id {self.idparam} body 3'
        if k == 'expr' and s[1][0] == 'match' and not rest:
            return self.match_server(s[1], None)
        if k == 'expr' and s[1][0] == 'iflet' and not rest:
            return self.iflet_server(s[1])
        if k == 'expr' and s[2] and s[1][0] == 'try' and rest:
            # server_state.server.OP(..).map_err(server_error_to_actix)?;  Ok(response)
            inner = s[1][1]
            if inner[0] == 'method' and inner[2] == 'map_err' and self.server_op(inner[1]):
                c, prog, op = self.server_op(inner[1])
                if len(rest) != 1 or rest[0][0] != 'expr': raise PE('tail after server call')
                ok = self.result(rest[0][1])
                return (f'.txn {c} {prog} fun _res => (match _res with\n    | none => .done {{ status := 500 }}\n'
                        f'    | some (.error .noSuchClient) => .done (refuse .notFound)\n    | some (.ok _) => {ok})')
        raise PE(f'statement in handler: {k} {s[1][0] if len(s) > 1 and isinstance(s[1], tuple) else ""}')
    def iflet_server(self, x):
        pat, scrut, then, els = x[1], x[2], x[3], x[4]
        # if let Some((version_id, data)) = server_state.server.get_snapshot(c).map_err(server_error_to_actix)? { Ok(..) } else { Err(..) }
        if not (scrut[0] == 'try' and scrut[1][0] == 'method' and scrut[1][2] == 'map_err' and self.server_op(scrut[1][1])): raise PE('if-let scrutinee')
        c, prog, op = self.server_op(scrut[1][1])
        if not (pat[0] == 'pctor' and pat[1] == 'Some' and pat[2][0] == 'ptuple'): raise PE('if-let pattern')
        names = [p[1] for p in pat[2][1]]
        t = [s for s in then if s != ('skip',)]; e = [s for s in (els or []) if s != ('skip',)]
        if not (len(t) == 1 and len(e) == 1): raise PE('if-let branches')
        return (f'.txn {c} {prog} fun _res => (match _res with\n    | none => .done {{ status := 500 }}\n'
                f'    | some (.error .noSuchClient) => .done (refuse .notFound)\n'
                f'    | some (.ok (some ({", ".join(names)}))) => {self.result(t[0][1])}\n'
                f'    | some (.ok none) => {self.result(e[0][1])})')
    def cond(self, c):
        # req.content_type() != CONST
        if c[0] == 'bin' and c[1] == '!=' and c[2][0] == 'method' and c[2][1] == ('var', 'req') and c[2][2] == 'content_type' and c[3][0] == 'var' and c[3][1] in CT_CONST:
            return f'contentType r ≠ {CT_CONST[c[3][1]]}.toUTF8.toList'
        # body.is_empty()
        if c[0] == 'method' and c[2] == 'is_empty' and c[1][0] == 'var':
            return f'{c[1][1]}.size = 0'
        raise PE('condition in handler')
    def size_expr(self, e, body, chunk):
        if e[0] == 'bin' and e[1] in ('+', '>', '>=', '<', '<='):
            op = {'>': '>', '>=': '≥', '<': '<', '<=': '≤', '+': '+'}[e[1]]
            return f'({self.size_expr(e[2], body, chunk)} {op} {self.size_expr(e[3], body, chunk)})'
        if e[0] == 'method' and e[2] == 'len' and e[1][0] == 'var' and e[1][1] in (body, chunk):
            return f'{e[1][1]}.size'
        if e[0] == 'var' and e[1] == 'MAX_SIZE': return 'maxSize'
        if e[0] == 'num': return str(e[1])
        raise PE('size expression')
    def body_loop(self, body, w, rest):
        pat, scrut, blk = w[1], w[2], [s for s in w[3] if s != ('skip',)]
        if not (pat[0] == 'pctor' and pat[1] == 'Some' and pat[2][0] == 'pvar'): raise PE('while-let pattern')
        chunk = pat[2][1]
        # payload.next().await
        ok = scrut[0] == 'field' and scrut[2] == 'await' and scrut[1][0] == 'method' and scrut[1][2] == 'next' and scrut[1][1] == ('var', 'payload')
        if not ok: raise PE('while-let scrutinee')
        # let chunk = chunk?;  if COND { return Err(..) }  body.extend_from_slice(&chunk);
        if not (len(blk) == 3 and blk[0][0] == 'let' and blk[0][2] == ('try', ('var', chunk))): raise PE('chunk unwrap')
        if not (blk[1][0] == 'expr' and blk[1][1][0] == 'if' and blk[1][1][3] is None): raise PE('size test')
        test = blk[1][1]
        thn = [s for s in test[2] if s != ('skip',)]
        if not (len(thn) == 1 and thn[0][0] == 'return'): raise PE('size test body')
        kind = self.refusal_kind(thn[0][1][2][0])
        if not (blk[2][0] == 'expr' and blk[2][1][0] == 'method' and blk[2][1][1] == ('var', body) and blk[2][1][2] == 'extend_from_slice'): raise PE('append')
        cond = self.size_expr(test[1], body, chunk)
        name = f'{self.name}Body'
        self.helpers.append(f'def {name} (maxSize : Nat) : List Bytes → Bytes → Option Bytes\n  | [], {body} => some {body}\n'
                            f'  | {chunk} :: _rest, {body} => if {cond} then none else {name} maxSize _rest ({body} ++ {chunk})\n')
        return (f'(match {name} h.params.{self.maxsize_field} r.chunks ByteArray.empty with\n  | none => .done (refuse {kind})\n'
                f'  | some {body} =>\n  {self.seq(rest)})')

def service_body(src):
    src = strip_tests(src)
    m = re.search(r'async\s+fn\s+service\s*\(', src)
    if not m: raise PE('fn service not found')
    toks = tokenize(src[m.start():])
    p = HParser(toks)
    depth = 0
    while True:
        tk = p.peek()
        if tk is None: raise PE('no body')
        if tk == '(': depth += 1
        if tk == ')': depth -= 1
        if tk == '{' and depth == 0: break
        p.eat()
    return p.block()

def strip_tests(src):
    i = src.find('#[cfg(test)]')
    return src if i < 0 else src[:i]

def route_attr(src):
    m = re.search(r'#\[(get|post|put|delete|patch|head)\("([^"]*)"\)\]\s*pub\(crate\)\s+async\s+fn\s+service', strip_tests(src))
    if not m: raise PE('route attribute')
    return m.group(1).upper(), m.group(2)

HANDLERS = [('getChildVersion', 'get_child_version.rs', 'parent_version_id', None),
            ('addVersion', 'add_version.rs', 'parent_version_id', 'maxSize'),
            ('addSnapshot', 'add_snapshot.rs', 'version_id', 'maxSizeSnap'),
            ('getSnapshot', 'get_snapshot.rs', None, None)]

def translate_handler(lean_name, fname, idparam, msf):
    src = open(os.path.join(REPO, 'server/src/api', fname)).read()
    body = service_body(src)
    em = HEmit(lean_name, idparam, msf)
    term = em.seq(body)
    sig = '(h : HttpCfg) (r : Request)' + (f' ({idparam} : Uuid)' if idparam else '')
    return ''.join(em.helpers) + f'def {lean_name} {sig} : ReqM Response :=\n  {term}\n', route_attr(src)

def translate_client_id_header():
    src = strip_tests(open(os.path.join(REPO, 'server/src/api/mod.rs')).read())
    m = re.search(r'fn\s+client_id_header\s*\(', src)
    if not m: raise PE('client_id_header not found')
    toks = tokenize(src[m.start():])
    p = HParser(toks)
    depth = 0
    while True:
        tk = p.peek()
        if tk == '(': depth += 1
        if tk == ')': depth -= 1
        if tk == '{' and depth == 0: break
        p.eat()
    body = [s for s in p.block() if s != ('skip',)]
    errfns = {}
    def refusal(e):
        if e[0] == 'call':
            f = e[1].split('::')[-1]
            if f in ERRFN and ERRFN[f].startswith('refuse '): return ERRFN[f].split(' ')[1]
            if e[1] in errfns and not e[2]: return errfns[e[1]]
        raise PE(f'error constructor {e}')
    stmts = []
    for s in body:
        if s[0] == 'fn':
            inner = [x for x in s[2] if x != ('skip',)]
            if len(inner) == 1 and inner[0][0] == 'expr': errfns[s[1]] = refusal(inner[0][1])
            else: raise PE('nested fn')
        else:
            stmts.append(s)
    def map_err_kind(e):
        # X.map_err(|_| f())?
        if e[0] == 'try' and e[1][0] == 'method' and e[1][2] == 'map_err' and e[1][3][0][0] == 'closure':
            return e[1][1], refusal(e[1][3][0][2])
        raise PE('expected .map_err(|_| …)?')
    def seq(ss):
        ss = [s for s in ss if s != ('skip',)]
        if not ss: raise PE('falls off the end')
        s, rest = ss[0], ss[1:]
        if s[0] == 'expr' and s[1][0] == 'iflet':
            pat, scrut, then, els = s[1][1], s[1][2], s[1][3], s[1][4]
            v = pat[2][1]
            # req.headers().get(CLIENT_ID_HEADER)
            if scrut[0] == 'method' and scrut[2] == 'get' and scrut[3] == [('var', 'CLIENT_ID_HEADER')]:
                return f'(match header r "x-client-id" with\n  | some {v} =>\n  {seq(then + rest)}\n  | none =>\n  {seq((els or []) + rest)})'
            # &self.client_id_allowlist
            if scrut == ('field', ('var', 'self'), 'client_id_allowlist'):
                return f'(match allow with\n  | some {v} =>\n  {seq(then + rest)}\n  | none =>\n  {seq((els or []) + rest)})'
            raise PE('if-let in client_id_header')
        if s[0] == 'let':
            v = s[1][1]
            inner, kind = map_err_kind(s[2])
            if inner[0] == 'method' and inner[2] == 'to_str' and inner[1][0] == 'var':
                return f'(match toStr {inner[1][1]} with\n  | none => .error {kind}\n  | some {v} =>\n  {seq(rest)})'
            if inner[0] == 'call' and inner[1].endswith('::parse_str') and inner[2][0][0] == 'var':
                return f'(match parseUuid {inner[2][0][1]} with\n  | none => .error {kind}\n  | some {v} =>\n  {seq(rest)})'
            raise PE('let in client_id_header')
        if s[0] == 'expr' and s[1][0] == 'if':
            c, then, els = s[1][1], [x for x in s[1][2] if x != ('skip',)], s[1][3]
            if els is not None or not (len(then) == 1 and then[0][0] == 'return'): raise PE('if in client_id_header')
            r = then[0][1]
            if not (r[0] == 'call' and r[1] == 'Err'): raise PE('return in client_id_header')
            # !allow_list.contains(&client_id)
            if c[0] == 'not' and c[1][0] == 'method' and c[1][2] == 'contains' and c[1][1][0] == 'var' and c[1][3][0][0] == 'var':
                return f'(if !({c[1][1][1]}.contains {c[1][3][0][1]}) then .error {refusal(r[2][0])}\n  else\n  {seq(rest)})'
            raise PE('condition in client_id_header')
        if s[0] == 'expr' and not s[2] and s[1][0] == 'call' and s[1][1] == 'Ok' and s[1][2][0][0] == 'var':
            return f'.ok {s[1][2][0][1]}'
        if s[0] == 'expr' and not s[2] and s[1][0] == 'call' and s[1][1] == 'Err':
            return f'.error {refusal(s[1][2][0])}'
        raise PE(f'statement in client_id_header: {s[0]}')
    return f'def clientIdHeader (allow : Option (List Uuid)) (r : Request) : Except Refusal Uuid :=\n  {seq(stmts)}\n'

def default_headers():
    src = strip_tests(open(os.path.join(REPO, 'server/src/lib.rs')).read())
    out = []
    for m in re.finditer(r'DefaultHeaders::new\(\)((?:\s*\.add\(\(\s*"[^"]*"\s*,\s*"[^"]*"\s*\)\))+)', src):
        out += re.findall(r'\.add\(\(\s*"([^"]*)"\s*,\s*"([^"]*)"\s*\)\)', m.group(1))
    if not out: raise PE('default headers')
    return out

def norm(x):
    return re.sub(r'\s+', '', x)

def fn_block(src, name):
    m = re.search(r'fn\s+' + re.escape(name) + r'\b[^({;]*\(', src)
    if not m: raise PE(f'fn {name} not found')
    i = m.end(); depth = 1
    while depth:
        depth += {'(': 1, ')': -1}.get(src[i], 0); i += 1
    k = src.index('{', i); depth = 1; j = k + 1; in_str = False
    while depth:
        ch = src[j]
        if in_str:
            if ch == '\\': j += 1
            elif ch == '"': in_str = False
        else:
            if ch == '"': in_str = True
            elif ch == '{': depth += 1
            elif ch == '}': depth -= 1
        j += 1
    return src[k + 1:j - 1]

def chain_calls(expr):
    """`base.m1(a).m2(b)…` -> [(m1, a), (m2, b), …] (top level only)"""
    out = []; i = 0; depth = 0
    while i < len(expr):
        ch = expr[i]
        if ch in '([{': depth += 1
        elif ch in ')]}': depth -= 1
        elif ch == '.' and depth == 0:
            m = re.match(r'\.(\w+)\(', expr[i:])
            if m:
                j = i + m.end(); d = 1
                while d:
                    d += {'(': 1, ')': -1}.get(expr[j], 0); j += 1
                out.append((m.group(1), expr[i + m.end():j - 1]))
                i = j; continue
        i += 1
    return out

def web_wiring():
    """WebServer::new (what goes into ServerState, and any statement before it), WebServer::config (the scope's call chain),
    api_scope() (the services), index (route)"""
    lib = strip_tests(re.sub(r'//[^\n]*', '', open(os.path.join(REPO, 'server/src/lib.rs')).read()))
    mod = strip_tests(re.sub(r'//[^\n]*', '', open(os.path.join(REPO, 'server/src/api/mod.rs')).read()))
    nb = fn_block(lib, 'new')
    m = re.search(r'ServerState\s*\{(.*?)\}\s*\)', nb, re.S)
    if not m: raise PE('ServerState literal')
    # simple `let NAME = EXPR;` bindings of `new` are inlined (building the state through locals changes nothing)
    nlets = {lm.group(1): lm.group(2) for lm in re.finditer(r'\blet\s+(\w+)\s*=\s*((?:(?!\blet\b)[^;{])*?);', nb, re.S)}
    fields = []
    for part in re.split(r',(?![^()]*\))', m.group(1)):
        part = part.strip()
        if not part: continue
        if ':' in part:
            f, e = part.split(':', 1); f, e = f.strip(), e.strip()
        else:
            f, e = part, part
        if e in nlets and e != f or (e == f and f in nlets): e = nlets[e]
        fields.append((f, norm(e)))
    pre = nb[:nb.index('Self')]
    pre = re.sub(r'\blet\s+(\w+)\s*=\s*((?:(?!\blet\b)[^;{])*?);', '', pre, flags=re.S)
    pre = re.sub(r'\blet\s+\w+\s*=\s*Arc::new\(\s*ServerState\s*\{.*?\}\s*\)\s*;', '', pre, flags=re.S)
    before = norm(pre)
    new_w = [('before', before)] + [('ServerState.' + f, e) for f, e in fields]
    cb = fn_block(lib, 'config')
    m = re.search(r'web::scope\(\s*"([^"]*)"\s*\)', cb)
    if not m: raise PE('web::scope')
    # the chain after web::scope("")
    start = m.end(); depth = 0; j = start
    while j < len(cb):
        ch = cb[j]
        if ch in '([{': depth += 1
        elif ch in ')]}':
            if depth == 0: break
            depth -= 1
        elif ch == ';' and depth == 0: break      # the chain is a statement of its own (bound to a local)
        j += 1
    # simple `let NAME = EXPR;` bindings of `config` before the registration are inlined into the call chain (hoisting an
    # argument into a local does not change what is registered)
    lets = {}
    head = cb[:m.start()]
    for lm in re.finditer(r'\blet\s+(\w+)\s*=\s*(.*?);', head, re.S):
        lets[lm.group(1)] = lm.group(2)
    head = re.sub(r'\blet\s+\w+\s*=\s*.*?;', '', head, flags=re.S)
    chain = []
    for name, arg in chain_calls(cb[start:j]):
        arg = arg.strip()
        if arg.endswith(','): arg = arg[:-1]
        if arg.strip() in lets: arg = lets[arg.strip()]
        a = norm(arg)
        if name == 'wrap':
            dh = re.fullmatch(r'middleware::DefaultHeaders::new\(\)((?:\.add\(\("[^"]*","[^"]*"\)\))+)', re.sub(r'\s+(?=[^"]*(?:"[^"]*"[^"]*)*$)', '', arg))
            a = 'DefaultHeaders' if dh else a
        chain.append((name, a))
    scope = [('scope', m.group(1))] + chain
    tail = cb[j:]
    # the default service for requests no route matches: `cfg.default_service(web::to(|| async { HttpResponse::NotFound()
    # .insert_header((K, V)) … .finish() }))`  ->  ("default_service", "404:K=V;…")
    dm = re.search(r'cfg\s*\.\s*default_service\s*\(\s*web::to\s*\(\s*\|\|\s*async\s*\{\s*HttpResponse::NotFound\(\)((?:\s*\.insert_header\(\(\s*"[^"]*"\s*,\s*"[^"]*"\s*\)\))*)\s*\.finish\(\)\s*\}\s*\)\s*\)\s*;', tail)
    if dm:
        hs = re.findall(r'\.insert_header\(\(\s*"([^"]*)"\s*,\s*"([^"]*)"\s*\)\)', dm.group(1))
        scope.append(('default_service', '404:' + ';'.join(f'{k}={v}' for k, v in hs)))
        tail = tail[:dm.start()] + tail[dm.end():]
    # `let NAME = web::scope("")…; cfg.service(NAME);` is `cfg.service(web::scope("")…);`
    hm = re.search(r'\blet\s+(\w+)\s*=\s*$', head.rstrip())
    if hm:
        tm = re.match(r'\s*;\s*cfg\s*\.\s*service\s*\(\s*' + hm.group(1) + r'\s*\)\s*;', tail)
        if tm:
            head = head.rstrip()[:hm.start()] + 'cfg.service('
            tail = ');' + tail[tm.end():]
    other = norm(head) + '|' + norm(tail)
    scope.append(('around', other))
    ab = fn_block(mod, 'api_scope')
    # every `.service(path::to::service)` of api_scope(), in textual order (whether they are chained on the scope, registered in
    # a loop over a fixed array, or through a local)
    services = re.findall(r'\.service\(\s*([\w:]+)\s*\)', ab)
    if not re.search(r'web::scope\(\s*""\s*\)', ab): raise PE('api_scope: not the root scope')
    idx = re.search(r'#\[(get|post)\("([^"]*)"\)\]\s*async\s+fn\s+index', lib)
    index = (idx.group(1).upper(), idx.group(2)) if idx else ('?', '?')
    return new_w, scope, services, index

def lstr(x):
    return '"' + x.replace('\\', '\\\\').replace('"', '\\"') + '"'

def extract():
    parts, source, routes = {}, {}, []
    try:
        parts['clientIdHeader'] = translate_client_id_header(); source['clientIdHeader'] = 'translated'
    except Exception as e:
        parts['clientIdHeader'] = None; source['clientIdHeader'] = f'not-translated ({type(e).__name__}: {e}); behavioural correspondence only'
    for lean_name, fname, idparam, msf in HANDLERS:
        try:
            text, (method, path) = translate_handler(lean_name, fname, idparam, msf)
            parts[lean_name] = text; source[lean_name] = 'translated'; routes.append((method, path, lean_name))
        except Exception as e:
            parts[lean_name] = None; source[lean_name] = f'not-translated ({type(e).__name__}: {e}); behavioural correspondence only'
    try:
        dh = default_headers(); source['defaultHeaders'] = 'translated'
    except Exception as e:
        dh = None; source['defaultHeaders'] = f'not-translated ({e})'
    source['routes'] = 'translated' if len(routes) == 4 else 'not-translated (a handler could not be read)'
    try:
        parts['_web'] = web_wiring(); source['web'] = 'translated'
    except Exception as e:
        parts['_web'] = None; source['web'] = f'not-translated ({type(e).__name__}: {e}); behavioural correspondence only'
    return parts, routes, dh, source

def render(parts, routes, dh, stated):
    L = ["/- GENERATED by tools/handlers2lean.py from /repo's current server/src/api/*.rs and server/src/lib.rs on every check run. Do not edit. -/",
         'import Tcs.Model.Http', 'namespace Tcs', 'namespace HandlerSrc', '']
    for k in ['clientIdHeader'] + [h[0] for h in HANDLERS]:
        L.append(parts[k] if parts.get(k) is not None else stated['parts'][k])
    rts = routes if len(routes) == 4 else [tuple(x) for x in stated['routes']]
    L.append('def routes : List (String × String × String) :=\n  [' + ', '.join(f'({lstr(a)}, {lstr(b)}, {lstr(c)})' for a, b, c in rts) + ']')
    d = dh if dh is not None else [tuple(x) for x in stated['dh']]
    L.append('def defaultHeaders : List (String × String) :=\n  [' + ', '.join(f'({lstr(a)}, {lstr(b)})' for a, b in d) + ']')
    web = parts.get('_web') if parts.get('_web') is not None else stated['parts']['_web']
    new_w, scope, services, index = web
    pl = lambda l: '[' + ', '.join(f'({lstr(a)}, {lstr(b)})' for a, b in l) + ']'
    L.append('def webNew : List (String × String) :=\n  ' + pl(new_w))
    L.append('def scopeChain : List (String × String) :=\n  ' + pl(scope))
    L.append('def apiServices : List String :=\n  [' + ', '.join(lstr(x) for x in services) + ']')
    L.append(f'def indexRoute : String × String := ({lstr(index[0])}, {lstr(index[1])})')
    L += ['end HandlerSrc', 'end Tcs', '']
    return '\n'.join(L)

def load_stated():
    p = os.path.join(os.path.dirname(os.path.abspath(__file__)), 'handler_src_stated.json')
    return json.load(open(p)) if os.path.exists(p) else None

def extract_and_write(path):
    parts, routes, dh, source = extract()
    stated = load_stated()
    if stated is None and (any(v is None for v in parts.values()) or dh is None or len(routes) != 4):
        raise RuntimeError('cannot translate and there is no stated text: ' + json.dumps(source))
    txt = render(parts, routes, dh, stated)
    os.makedirs(os.path.dirname(path), exist_ok=True)
    old = open(path).read() if os.path.exists(path) else None
    if old != txt:
        open(path, 'w').write(txt)
    diff = {}
    if stated:
        for k, v in parts.items():
            sv = stated['parts'].get(k)
            if v is not None and json.loads(json.dumps(v)) != sv: diff[k] = True
        if len(routes) == 4 and [list(x) for x in routes] != stated['routes']: diff['routes'] = True
        if dh is not None and [list(x) for x in dh] != stated['dh']: diff['defaultHeaders'] = True
    return {'source': source, 'differs_from_stated': diff}

if __name__ == '__main__':
    out = sys.argv[1] if len(sys.argv) > 1 else '/verif/lean/Tcs/Generated/HandlerSrc.lean'
    if '--repo' in sys.argv:
        REPO = sys.argv[sys.argv.index('--repo') + 1]
    if '--write-stated' in sys.argv:
        parts, routes, dh, source = extract()
        json.dump({'parts': parts, 'routes': [list(x) for x in routes], 'dh': [list(x) for x in dh]},
                  open(os.path.join(os.path.dirname(os.path.abspath(__file__)), 'handler_src_stated.json'), 'w'), indent=1)
    print(json.dumps(extract_and_write(out), indent=1))
