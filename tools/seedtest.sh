#!/bin/bash
# usage: tools/seedtest.sh <patch.diff> <check-id>...   -- apply a seeded change to /repo, run checks, undo it
set -u
patch="$(realpath "$1")"; shift
cd /verif
if ! git -C /repo diff --quiet; then echo "/repo has uncommitted changes; refusing"; exit 9; fi
git -C /repo apply "$patch" || { echo "patch does not apply"; exit 8; }
for id in "$@"; do
  ./check "$id" 2>&1 | grep -E "^\[|VIOLATION|KNOWN|INFRA|oracle:|first in-scope|proof stage" | cut -c1-400
done
git -C /repo checkout -- .
git -C /repo status --short | grep -v target | head -3
