#!/bin/bash
# Build the verification framework from files on disk only (offline).
set -e
cd "$(dirname "$0")"
export CARGO_NET_OFFLINE=true
python3 tools/extract_params.py > /dev/null
python3 tools/urgency2lean.py > /dev/null
python3 tools/sql2lean.py > /dev/null
python3 tools/server2lean.py > /dev/null
python3 tools/clap2lean.py > /dev/null
python3 tools/handlers2lean.py > /dev/null
python3 tools/inmemory2lean.py > /dev/null
(cd lean && lake build 2>&1 | tail -3)
(cd harness && cargo build --offline --locked 2>&1 | tail -2)
(cargo build --offline --locked --manifest-path /repo/Cargo.toml --bin taskchampion-sync-server --target-dir .cache/target-repo 2>&1 | tail -1)
mkdir -p .cache && gcc -O2 -shared -fPIC -o .cache/iorec.so tools/iorec.c -ldl -lpthread
echo "setup done"
