#!/usr/bin/env python3
"""Observation O1 (outside the twenty properties; see DESIGN.md section 0.1): an upload whose body ends before the declared
Content-Length - the client half-closes or dies mid-upload - is accepted with 200 and the PREFIX received so far is stored
as an accepted version / snapshot. actix-http feeds a clean end-of-stream to the handler when the peer closes its sending
side, and the handlers take the end of the stream as the end of the body.

usage: truncated_upload.py <path to taskchampion-sync-server binary>     exit 0 = not reproduced, 1 = reproduced"""
import socket, http.client, subprocess, sys, tempfile, time, os, shutil
binp = sys.argv[1] if len(sys.argv) > 1 else '/verif/.cache/target-repo/debug/taskchampion-sync-server'
d = tempfile.mkdtemp(prefix='tcs-o1-')
port = 18000 + os.getpid() % 1000
p = subprocess.Popen([binp, '--listen', f'127.0.0.1:{port}', '--data-dir', d + '/data'], stdout=subprocess.DEVNULL, stderr=subprocess.DEVNULL)
try:
    for _ in range(50):
        try: socket.create_connection(('127.0.0.1', port), timeout=0.2).close(); break
        except OSError: time.sleep(0.1)
    C = '11111111-2222-4333-8444-555555555555'
    NIL = '00000000-0000-0000-0000-000000000000'
    hdr = (f'POST /v1/client/add-version/{NIL} HTTP/1.1\r\nHost: x\r\nX-Client-Id: {C}\r\n'
           'Content-Type: application/vnd.taskchampion.history-segment\r\nContent-Length: 100\r\n\r\n').encode()
    s = socket.create_connection(('127.0.0.1', port)); s.settimeout(3)
    s.sendall(hdr + b'0123456789abcdef'); s.shutdown(socket.SHUT_WR)
    resp = b''
    try:
        while True:
            x = s.recv(65536)
            if not x: break
            resp += x
    except OSError: pass
    s.close()
    c = http.client.HTTPConnection('127.0.0.1', port); c.request('GET', f'/v1/client/get-child-version/{NIL}', headers={'X-Client-Id': C})
    r = c.getresponse(); body = r.read(); c.close()
    print('answer to the truncated upload:', resp.split(b'\r\n')[0].decode(errors='replace'))
    print('GetChildVersion(nil):', r.status, body)
    sys.exit(1 if (r.status == 200 and body == b'0123456789abcdef') else 0)
finally:
    p.kill(); p.wait(); shutil.rmtree(d, ignore_errors=True)
